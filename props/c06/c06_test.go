// Package c06 decides property C06 "Replay protection: a signed transaction takes effect at most once".
package c06

import (
	"bytes"
	"fmt"
	"math/big"
	"strings"
	"testing"

	"github.com/canopy-network/canopy/fsm"
	"github.com/canopy-network/canopy/lib"
	"github.com/canopy-network/canopy/lib/crypto"
	ethTypes "github.com/ethereum/go-ethereum/core/types"
	"pgregory.net/rapid"

	cs "verif/h/chainsim"
	"verif/h/ev"
	"verif/h/keys"
	"verif/h/wire"
)

// fataler is satisfied by *testing.T and *rapid.T.
type fataler interface {
	Fatalf(string, ...any)
	Logf(string, ...any)
}

// variant is one byte string derived from an included transaction T without access to any private key.
type variant struct {
	label string // trick used (readable)
	class string // evidence class of the trick
	bz    []byte
	// sameContent: the variant carries the signed content of T (equal canopy sign bytes; for Ethereum-wrapped transactions the
	// same signed Ethereum payload) - it is T in another dress. Every variant must fail; these are the ones that matter.
	sameContent bool
	decodes     bool // lib.Unmarshal + CheckBasic ok
	differs     bool // bytes != T's bytes
}

func (v variant) nontrivial() bool { return v.sameContent && v.decodes && v.differs }

// kfPadding: set padding bits in the signer bitmap of a multisig account key survive the canonical-encoding check.
const kfPadding = "KF-C06-multisig-bitmap-padding"

var excludedPadding int

var secpN, _ = new(big.Int).SetString("FFFFFFFFFFFFFFFFFFFFFFFFFFFFFFFEBAAEDCE6AF48A03BBFD25E8CD0364141", 16)
var edL, _ = new(big.Int).SetString("7237005577332262213973186563042994240857116359379907606001950938285454250989", 10)

func cloneTx(tx *lib.Transaction) *lib.Transaction {
	n := new(lib.Transaction)
	if e := lib.Unmarshal(cs.MustMarshal(tx), n); e != nil {
		panic(e)
	}
	return n
}

func isRLP(tx *lib.Transaction) bool {
	if !lib.IsRLPMemo(tx.Memo) || tx.Signature == nil {
		return false
	}
	pk, err := crypto.NewPublicKeyFromBytes(tx.Signature.PublicKey)
	if err != nil {
		return false
	}
	_, ok := pk.(*crypto.ETHSECP256K1PublicKey)
	return ok
}

// classify fills decodes / differs / sameContent of a variant of T.
func classify(v *variant, tBytes []byte, tTx *lib.Transaction, sameByConstruction bool) {
	v.differs = !bytes.Equal(v.bz, tBytes)
	got := new(lib.Transaction)
	if e := lib.Unmarshal(v.bz, got); e != nil || got.CheckBasic() != nil {
		return
	}
	v.decodes = true
	sbT, _ := tTx.GetSignBytes()
	sbV, _ := got.GetSignBytes()
	v.sameContent = bytes.Equal(sbT, sbV)
	if isRLP(tTx) {
		// the signed content of an Ethereum-wrapped transaction is the Ethereum payload carried in the signature field
		v.sameContent = v.sameContent && (bytes.Equal(got.Signature.Signature, tTx.Signature.Signature) || sameByConstruction)
	}
}

// highS returns the (r, n-s) form of a 64 byte secp256k1 signature.
func highS(sig []byte) []byte {
	if len(sig) != 64 {
		return nil
	}
	s := new(big.Int).SetBytes(sig[32:])
	out := append([]byte{}, sig[:32]...)
	return append(out, new(big.Int).Sub(secpN, s).FillBytes(make([]byte, 32))...)
}

// edPlusL returns (R, s+L): the non-canonical scalar form of an ed25519 signature.
func edPlusL(sig []byte) []byte {
	if len(sig) != 64 {
		return nil
	}
	le := make([]byte, 32)
	for i := 0; i < 32; i++ {
		le[31-i] = sig[32+i]
	}
	s := new(big.Int).Add(new(big.Int).SetBytes(le), edL)
	if s.BitLen() > 256 {
		return nil
	}
	be := s.FillBytes(make([]byte, 32))
	out := append([]byte{}, sig...)
	for i := 0; i < 32; i++ {
		out[32+i] = be[31-i]
	}
	return out
}

// ethMalleate rebuilds a raw Ethereum transaction with the signature (r, n-s, v flipped): same signer, same signed payload.
func ethMalleate(raw []byte) []byte {
	var tx ethTypes.Transaction
	if tx.UnmarshalBinary(raw) != nil {
		return nil
	}
	v, r, s := tx.RawSignatureValues()
	ns := new(big.Int).Sub(secpN, s)
	var inner ethTypes.TxData
	switch tx.Type() {
	case ethTypes.LegacyTxType:
		nv := new(big.Int).Set(v)
		if v.Bit(0) == 1 { // 35+2c+0 is odd
			nv.Add(nv, big.NewInt(1))
		} else {
			nv.Sub(nv, big.NewInt(1))
		}
		inner = &ethTypes.LegacyTx{Nonce: tx.Nonce(), GasPrice: tx.GasPrice(), Gas: tx.Gas(), To: tx.To(), Value: tx.Value(), Data: tx.Data(), V: nv, R: r, S: ns}
	case ethTypes.AccessListTxType:
		inner = &ethTypes.AccessListTx{ChainID: tx.ChainId(), Nonce: tx.Nonce(), GasPrice: tx.GasPrice(), Gas: tx.Gas(), To: tx.To(), Value: tx.Value(), Data: tx.Data(),
			AccessList: tx.AccessList(), V: new(big.Int).Xor(v, big.NewInt(1)), R: r, S: ns}
	case ethTypes.DynamicFeeTxType:
		inner = &ethTypes.DynamicFeeTx{ChainID: tx.ChainId(), Nonce: tx.Nonce(), GasTipCap: tx.GasTipCap(), GasFeeCap: tx.GasFeeCap(), Gas: tx.Gas(), To: tx.To(), Value: tx.Value(),
			Data: tx.Data(), AccessList: tx.AccessList(), V: new(big.Int).Xor(v, big.NewInt(1)), R: r, S: ns}
	default:
		return nil
	}
	out, err := ethTypes.NewTx(inner).MarshalBinary()
	if err != nil {
		return nil
	}
	return out
}

// variantPool enumerates every variant family for T. wire re-encodings are added lazily by index because there are many.
type variantPool struct {
	tBytes []byte
	tTx    *lib.Transaction
	signer cs.Signer
	wire   []wire.Variant // depth-1 re-encodings of the whole transaction
	fixed  []variant      // identical, key encodings, signature malleations, wrapper tampering
}

func newVariantPool(tBytes []byte, tTx *lib.Transaction, signer cs.Signer) *variantPool {
	p := &variantPool{tBytes: tBytes, tTx: tTx, signer: signer}
	p.wire, _ = wire.Reencodings(tBytes, wire.TransactionSchema, 1)
	add := func(class, label string, same bool, mut func(tx *lib.Transaction) bool) {
		tx := cloneTx(tTx)
		if !mut(tx) {
			return
		}
		v := variant{label: label, class: class, bz: cs.MustMarshal(tx)}
		classify(&v, tBytes, tTx, same)
		p.fixed = append(p.fixed, v)
	}
	id := variant{label: "identical", class: "identical", bz: append([]byte{}, tBytes...)}
	classify(&id, tBytes, tTx, true)
	p.fixed = append(p.fixed, id)
	pk, sig := tTx.Signature.PublicKey, tTx.Signature.Signature
	// alternative public key encodings
	if len(pk) == 64 {
		for _, pre := range []byte{0x04, 0x06, 0x07} {
			pre := pre
			add("pubkey-encoding", fmt.Sprintf("eth-pubkey-65(0x%02x)", pre), true, func(tx *lib.Transaction) bool {
				tx.Signature.PublicKey = append([]byte{pre}, pk...)
				return true
			})
		}
	}
	if signer.Kind == cs.KindMulti {
		mv, _ := wire.Reencodings(pk, wire.MultiPublicKeySchema, 0)
		stride := len(mv)/8 + 1
		for i, m := range mv {
			if !m.Equivalent || i%stride != 0 {
				continue // a sample of the re-encodings of the key message is enough
			}
			m := m
			add("pubkey-encoding", "multisig-key/"+m.Trick, true, func(tx *lib.Transaction) bool { tx.Signature.PublicKey = m.Bytes; return true })
		}
		// unused (padding) bits of the signer bitmap: same signers, same aggregate signature, other key bytes
		if ev.Open(kfPadding) {
			excludedPadding++
		} else {
			for _, bit := range []uint{7, 6, 3} {
				bit := bit
				add("pubkey-encoding", fmt.Sprintf("multisig-bitmap-padding-bit%d", bit), true, func(tx *lib.Transaction) bool {
					if int(bit) < len(signer.Multi.Members) {
						return false
					}
					fs, err := wire.Parse(pk)
					if err != nil {
						return false
					}
					for i := range fs {
						if fs[i].Num == 2 && len(fs[i].B) > 0 {
							fs[i].B[len(fs[i].B)-1] |= 1 << bit
						}
					}
					tx.Signature.PublicKey = wire.Encode(fs)
					return true
				})
			}
		}
	}
	// malleated signatures
	switch signer.Kind {
	case cs.KindSecp, cs.KindEth:
		add("sig-malleation", "secp256k1-high-s", true, func(tx *lib.Transaction) bool {
			tx.Signature.Signature = highS(sig)
			return tx.Signature.Signature != nil
		})
	case cs.KindEd:
		add("sig-malleation", "ed25519-s+L", true, func(tx *lib.Transaction) bool {
			tx.Signature.Signature = edPlusL(sig)
			return tx.Signature.Signature != nil
		})
	case cs.KindRLP, cs.KindRLPV2:
		add("sig-malleation", "eth-tx-high-s-flipped-v", true, func(tx *lib.Transaction) bool {
			tx.Signature.Signature = ethMalleate(sig)
			return tx.Signature.Signature != nil
		})
		add("sig-malleation", "eth-tx-trailing-byte", false, func(tx *lib.Transaction) bool {
			tx.Signature.Signature = append(append([]byte{}, sig...), 0)
			return true
		})
		// wrapper fields of an Ethereum-wrapped transaction are not covered by the Ethereum signature but must be re-derived
		add("rlp-wrapper", "rlp-wrapper:created_height+1", false, func(tx *lib.Transaction) bool { tx.CreatedHeight++; return true })
		add("rlp-wrapper", "rlp-wrapper:time+1", false, func(tx *lib.Transaction) bool { tx.Time++; return true })
		add("rlp-wrapper", "rlp-wrapper:nonce+1", false, func(tx *lib.Transaction) bool { tx.Nonce++; return true })
		add("rlp-wrapper", "rlp-wrapper:memo-swap", false, func(tx *lib.Transaction) bool {
			if tx.Memo == fsm.RLPIndicator {
				tx.Memo = fsm.RLPV2Indicator
			} else {
				tx.Memo = fsm.RLPIndicator
			}
			return true
		})
	}
	if signer.Kind != cs.KindRLP && signer.Kind != cs.KindRLPV2 {
		// one envelope scalar changed, signature KEPT: the replay-side view of "the signature covers every field". On a correct
		// tree the sign bytes differ (control: sameContent=false) and the signature check rejects them; a field missing from the
		// sign bytes would make these same-content variants with a fresh hash.
		add("scalar-changed-signature-kept", "nonce=1,signature-kept", false, func(tx *lib.Transaction) bool { tx.Nonce = 1; return true })
		add("scalar-changed-signature-kept", "nonce=2^63,signature-kept", false, func(tx *lib.Transaction) bool { tx.Nonce = 1 << 63; return true })
		add("scalar-changed-signature-kept", "time+1,signature-kept", false, func(tx *lib.Transaction) bool { tx.Time++; return true })
		add("scalar-changed-signature-kept", "time-1,signature-kept", false, func(tx *lib.Transaction) bool { tx.Time--; return true })
		add("scalar-changed-signature-kept", "memo+x,signature-kept", false, func(tx *lib.Transaction) bool { tx.Memo += "x"; return true })
		add("scalar-changed-signature-kept", "fee+1,signature-kept", false, func(tx *lib.Transaction) bool { tx.Fee++; return true })
		add("scalar-changed-signature-kept", "fee-1,signature-kept", false, func(tx *lib.Transaction) bool { tx.Fee--; return true })
		add("scalar-changed-signature-kept", "created_height+1,signature-kept", false, func(tx *lib.Transaction) bool { tx.CreatedHeight++; return true })
		add("scalar-changed-signature-kept", "created_height-1,signature-kept", false, func(tx *lib.Transaction) bool {
			if tx.CreatedHeight < 2 {
				return false
			}
			tx.CreatedHeight--
			return true
		})
		add("sig-malleation", "sig+0x00", true, func(tx *lib.Transaction) bool {
			tx.Signature.Signature = append(append([]byte{}, sig...), 0)
			return true
		})
		add("sig-malleation", "sig-truncated", true, func(tx *lib.Transaction) bool {
			tx.Signature.Signature = append([]byte{}, sig[:len(sig)-1]...)
			return true
		})
	}
	return p
}

// draw picks a variant: fixed families and wire re-encodings (single trick or two composed tricks).
func (p *variantPool) draw(rt *rapid.T, label string) variant {
	switch k := rapid.IntRange(0, 9).Draw(rt, label+"-family"); {
	case k <= 3 || len(p.wire) == 0:
		// class first, then a member: small families (signature malleations) are not drowned by large ones
		var classes []string
		byClass := map[string][]variant{}
		for _, v := range p.fixed {
			if _, ok := byClass[v.class]; !ok {
				classes = append(classes, v.class)
			}
			byClass[v.class] = append(byClass[v.class], v)
		}
		vs := byClass[classes[rapid.IntRange(0, len(classes)-1).Draw(rt, label+"-class")]]
		return vs[rapid.IntRange(0, len(vs)-1).Draw(rt, label+"-fixed")]
	case k <= 7:
		w := p.wire[rapid.IntRange(0, len(p.wire)-1).Draw(rt, label+"-wire")]
		v := variant{label: w.Trick, class: "wire:" + w.Class, bz: w.Bytes}
		classify(&v, p.tBytes, p.tTx, false)
		return v
	default:
		w, err := wire.Compose(p.tBytes, wire.TransactionSchema, 1, 2, func(n int) int { return rapid.IntRange(0, n-1).Draw(rt, label+"-compose") })
		if err != nil {
			rt.Fatalf("compose: %v", err)
		}
		v := variant{label: w.Trick, class: "wire2:" + w.Class, bz: w.Bytes}
		classify(&v, p.tBytes, p.tTx, false)
		return v
	}
}

// blockResult summarises an applied block by transaction hash.
type blockResult struct {
	included map[string]bool
	failed   map[string]string
}

func summarize(out *cs.Outcome) blockResult {
	r := blockResult{included: map[string]bool{}, failed: map[string]string{}}
	for _, tx := range out.Results.Txs {
		r.included[crypto.HashString(tx)] = true
	}
	for _, f := range out.Results.Failed {
		msg := "?"
		if f.Error != nil {
			msg = strings.Join(strings.Fields(f.Error.Error()), " ")
		}
		r.failed[f.Hash] = msg
	}
	return r
}

func mustBlock(t fataler, c *cs.Chain, spec cs.BlockSpec, what string) *cs.Outcome {
	out, err := c.Use().Block(spec)
	if err != nil {
		t.Fatalf("%s: harness error committing block: %v", what, err)
	}
	return out
}

// replayRound submits vs alone in the next block of c and checks against a twin that gets an empty block: every variant
// failed, nothing else changed. It returns a violation text or "".
func replayRound(t fataler, c *cs.Chain, vs []variant, what string) string {
	twin, err := c.Fork()
	if err != nil {
		t.Fatalf("fork: %v", err)
	}
	defer twin.Close()
	tm := c.Tick()
	var txs [][]byte
	seen := map[string]bool{}
	for _, v := range vs {
		if h := crypto.HashString(v.bz); !seen[h] { // same-block byte-identical duplicates are de-duplicated by the mempool
			seen[h] = true
			txs = append(txs, v.bz)
		}
	}
	out := mustBlock(t, c, cs.BlockSpec{Txs: txs, Time: tm}, what)
	if out.Err != nil {
		return fmt.Sprintf("%s: ApplyBlock failed as a whole: %v", what, out.Err)
	}
	res := summarize(out)
	for _, v := range vs {
		h := crypto.HashString(v.bz)
		if res.included[h] {
			return fmt.Sprintf("%s: variant [%s] (same signed content=%v, %d bytes) of an already included transaction was EXECUTED again (hash %s)", what, v.label, v.sameContent, len(v.bz), h)
		}
		if _, ok := res.failed[h]; !ok {
			return fmt.Sprintf("%s: variant [%s] neither included nor failed", what, v.label)
		}
	}
	tout := mustBlock(t, twin, cs.BlockSpec{Time: tm}, what+" twin")
	if tout.Err != nil {
		t.Fatalf("%s: twin empty block failed: %v", what, tout.Err)
	}
	c.Use()
	a, _ := c.Scan()
	b, _ := twin.Scan()
	if d := cs.DiffScans(a, b); d != "" {
		return fmt.Sprintf("%s: state after a block of failed replays differs from the twin chain's empty block: %s", what, d)
	}
	return ""
}

var replayMsgTypes = cs.ScenarioTypes

var _, theCast = cs.RichGenesis(1, cs.GenesisOpts{})

func drawSigner(rt *rapid.T, mt string, salt int) cs.Signer {
	kinds := []int{cs.KindBLS, cs.KindEd, cs.KindSecp, cs.KindEth, cs.KindMulti, cs.KindMulti}
	if cs.RLPSupports(mt) {
		kinds = append(kinds, cs.KindRLP, cs.KindRLP, cs.KindRLPV2, cs.KindRLPV2)
	}
	s := cs.Signer{Kind: rapid.SampledFrom(kinds).Draw(rt, "signer-kind"), Key: 10 + salt%6}
	switch s.Kind {
	case cs.KindMulti:
		s.Multi = theCast.Multis[rapid.IntRange(0, len(theCast.Multis)-1).Draw(rt, "multisig")]
		n := len(s.Multi.Members)
		// exactly threshold or more signers
		cnt := rapid.IntRange(int(s.Multi.Threshold), n).Draw(rt, "multisig-signers")
		perm := rapid.Permutation([]int{0, 1, 2}[:n]).Draw(rt, "multisig-who")
		s.Positions = append([]int{}, perm[:cnt]...)
	case cs.KindRLP, cs.KindRLPV2:
		s.TxType = rapid.IntRange(0, 2).Draw(rt, "eth-tx-type")
		s.ABI = mt == fsm.MessageSendName && rapid.Bool().Draw(rt, "abi")
	}
	return s
}

// ledgerCheck verifies "exactly once" on the signer's account (and the recipient) between the scan before T and the final one.
func ledgerCheck(sc *cs.Scenario, fee uint64, pre, post map[string][]byte, chainID uint64) string {
	me := sc.Signer.Address()
	a0, a1 := cs.AccountIn(pre, me).Amount, cs.AccountIn(post, me).Amount
	want := a0 - fee - sc.Debit + sc.Credit
	if sc.MsgType == fsm.MessageUnstakeName && cs.ValidatorIn(post, sc.Validator) == nil {
		want += sc.NewStake // unstaking finished in the meantime: the stake came back to the output address (= signer)
	}
	if a1 != want {
		return fmt.Sprintf("signer account: before T %d, after the history %d, expected %d (= one fee %d, one debit %d, one credit %d)", a0, a1, want, fee, sc.Debit, sc.Credit)
	}
	switch sc.MsgType {
	case fsm.MessageSendName:
		if got := cs.AccountIn(post, sc.Recipient).Amount - cs.AccountIn(pre, sc.Recipient).Amount; got != sc.Debit {
			return fmt.Sprintf("recipient gained %d, one transfer is %d", got, sc.Debit)
		}
	case fsm.MessageStakeName, fsm.MessageEditStakeName:
		if v := cs.ValidatorIn(post, sc.Validator); v == nil || v.StakedAmount != sc.NewStake {
			return fmt.Sprintf("validator stake %v, expected %d", v, sc.NewStake)
		}
	case fsm.MessageCreateOrderName:
		n0, n1 := 0, 0
		for _, o := range cs.OrdersIn(pre, chainID) {
			if bytes.Equal(o.SellersSendAddress, me) {
				n0++
			}
		}
		for _, o := range cs.OrdersIn(post, chainID) {
			if bytes.Equal(o.SellersSendAddress, me) {
				n1++
			}
		}
		if n1 != n0+1 {
			return fmt.Sprintf("seller has %d orders after the history, had %d before: exactly one must have been created", n1, n0)
		}
	}
	return ""
}

// TestC06Replay: one valid transaction T per case, then re-encodings / alternative key encodings / malleated signatures /
// identical copies of T in the same block, in later blocks, far later (fast-forward) and on chains with other ids.
func TestC06Replay(t *testing.T) {
	rec := ev.New(t, "C06")
	caseNo := 0
	rapid.Check(t, func(rt *rapid.T) {
		cse := rec.Case()
		caseNo++
		salt := rapid.IntRange(0, 500).Draw(rt, "salt")
		chainID := rapid.SampledFrom([]uint64{1, 1, 1, 2, 9}).Draw(rt, "chain-id")
		netID := rapid.SampledFrom([]uint64{1, 1, 3}).Draw(rt, "network-id")
		mt := rapid.SampledFrom(replayMsgTypes).Draw(rt, "msg-type")
		signer := drawSigner(rt, mt, salt)
		amount := rapid.Uint64Range(1, 3_000_000).Draw(rt, "amount")
		pre := rapid.IntRange(0, 2).Draw(rt, "pre-blocks")
		cse.Class("msg=" + mt)
		cse.Class("signer=" + cs.SignerKindName(signer.Kind))
		cse.Desc("chain=%d/net=%d pre=%d T=%s(%d) by %s", chainID, netID, pre, mt, amount, signer)

		g, _ := cs.RichGenesis(chainID, cs.GenesisOpts{})
		c, err := cs.New(cs.Opts{ChainID: chainID, NetworkID: netID, Genesis: g})
		if err != nil {
			rt.Fatalf("new chain: %v", err)
		}
		defer c.Close()
		for i := 0; i < pre; i++ {
			if out := mustBlock(rt, c, cs.BlockSpec{}, "pre-block"); out.Err != nil {
				rt.Fatalf("empty block failed: %v", out.Err)
			}
		}
		sc, err := cs.NewScenario(c, mt, signer, amount, salt)
		if err != nil {
			rt.Fatalf("scenario: %v", err)
		}
		if len(sc.Setup) > 0 {
			out := mustBlock(rt, c, cs.BlockSpec{Txs: sc.Setup}, "setup")
			if out.Err != nil || len(out.Results.Failed) > 0 {
				rt.Fatalf("harness: setup transaction rejected: %v %v", out.Err, summarize(out).failed)
			}
		}
		// T
		tH := c.Height()
		tBytes, tTx, err := c.Sign(signer, sc.Msg, cs.TxOpts{Fee: cs.DefaultFee, Created: tH, Nonce: sc.NextNonce})
		if err != nil {
			rt.Fatalf("harness: cannot build T: %v", err)
		}
		cse.ClassIf(tH == 1, "T-at-height-1")
		excludedPadding = 0
		pool := newVariantPool(tBytes, tTx, signer)
		for i := 0; i < excludedPadding; i++ {
			rec.Exclude(kfPadding)
		}
		preScan, _ := c.Scan()
		nontriv := false
		note := func(v variant, place string) {
			if strings.HasPrefix(v.class, "wire2:") {
				cse.Class("trick=two-wire-tricks-composed")
				for _, part := range strings.Split(strings.TrimPrefix(v.class, "wire2:"), "+") {
					cse.Class("trick=wire:" + part)
				}
			} else {
				cse.Class("trick=" + v.class)
			}
			cse.Class("place=" + place)
			cse.ClassIf(v.nontrivial(), "variant=same-content-other-bytes")
			cse.ClassIf(!v.decodes, "variant=undecodable")
			cse.ClassIf(v.decodes && !v.sameContent, "variant=other-content(control)")
			nontriv = nontriv || v.nontrivial()
		}

		// --- block k: T with variants before and after it in the SAME block
		var before, after []variant
		inBlock := map[string]bool{}
		withIdentical := false
		pick := func(label string, n int) (out []variant) {
			for i := 0; i < n; i++ {
				v := pool.draw(rt, label)
				if !v.differs {
					withIdentical = true // a byte-identical copy of T in T's block
				} else if inBlock[string(v.bz)] {
					continue // byte-identical copies of one FAILING variant: the mempool de-duplicates by hash
				}
				inBlock[string(v.bz)] = true
				out = append(out, v)
			}
			return
		}
		before = pick("before", rapid.IntRange(0, 2).Draw(rt, "n-before"))
		after = pick("after", rapid.IntRange(0, 2).Draw(rt, "n-after"))
		var names []string
		txs := [][]byte{}
		for _, v := range before {
			txs = append(txs, v.bz)
			names = append(names, v.label)
		}
		txs = append(txs, tBytes)
		names = append(names, "T")
		for _, v := range after {
			txs = append(txs, v.bz)
			names = append(names, v.label)
		}
		cse.Desc("h%d[%s]", tH, strings.Join(names, ", "))
		twin, err := c.Fork()
		if err != nil {
			rt.Fatalf("fork: %v", err)
		}
		defer twin.Close()
		tm := c.Tick()
		if withIdentical {
			// byte-identical duplicates inside one block: the proposer path returns ErrDuplicateTx for the WHOLE block (the mempool
			// de-duplicates by hash before, see assumptions). At-most-once must still hold: nothing may be committed.
			cse.Class("same-block-identical(block rejected)")
			out := mustBlock(rt, c, cs.BlockSpec{Txs: txs, Time: tm}, "block k with identical duplicate")
			if out.Err == nil {
				rt.Fatalf("VIOLATION C06: a block holding byte-identical copies of one transaction was accepted: included=%d", len(out.Results.Txs))
			}
			if out.Err.Code() != lib.CodeDuplicateTransaction {
				rt.Fatalf("block with an identical duplicate failed with an unexpected error: %v", out.Err)
			}
			now, _ := c.Scan()
			if d := cs.DiffScans(preScan, now); d != "" || c.Height() != tH {
				rt.Fatalf("VIOLATION C06: rejected block left traces: %s", d)
			}
			txs = dedup(txs)
		}
		out := mustBlock(rt, c, cs.BlockSpec{Txs: txs, Time: tm}, "block k")
		if out.Err != nil {
			rt.Fatalf("VIOLATION C06/C07: block with T and non-identical variants failed as a whole: %v", out.Err)
		}
		res := summarize(out)
		tHash := crypto.HashString(tBytes)
		for i, v := range append(append([]variant{}, before...), after...) {
			place := "same-block-before-T"
			if i >= len(before) {
				place = "same-block-after-T"
			}
			note(v, place)
			if !v.differs {
				continue
			}
			if res.included[crypto.HashString(v.bz)] {
				rt.Fatalf("VIOLATION C06: variant [%s] (same signed content=%v) was executed in the SAME block as T (T=%s V=%s)", v.label, v.sameContent, tHash, crypto.HashString(v.bz))
			}
		}
		if !res.included[tHash] {
			// not a property violation: the generator built an invalid T
			rt.Fatalf("harness: T itself was rejected: %s", res.failed[tHash])
		}
		tout := mustBlock(rt, twin, cs.BlockSpec{Txs: [][]byte{tBytes}, Time: tm}, "twin block k")
		if tout.Err != nil || len(tout.Results.Failed) != 0 {
			rt.Fatalf("harness: T alone rejected on the twin: %v", tout.Err)
		}
		c.Use()
		a, _ := c.Scan()
		b, _ := twin.Scan()
		if d := cs.DiffScans(a, b); d != "" {
			rt.Fatalf("VIOLATION C06: block [%s] left another state than the block [T] alone: %s", strings.Join(names, ", "), d)
		}

		// --- later blocks
		rounds := rapid.IntRange(1, 2).Draw(rt, "later-rounds")
		for r := 0; r < rounds; r++ {
			if rapid.IntRange(0, 3).Draw(rt, "gap") == 0 {
				if o := mustBlock(rt, c, cs.BlockSpec{}, "gap block"); o.Err != nil {
					rt.Fatalf("empty block failed: %v", o.Err)
				}
			}
			var vs []variant
			names = names[:0]
			for i, n := 0, rapid.IntRange(2, 6).Draw(rt, "n-later"); i < n; i++ {
				v := pool.draw(rt, "later")
				vs = append(vs, v)
				names = append(names, v.label)
				note(v, "later-block")
			}
			cse.Desc("h%d[%s]", c.Height(), strings.Join(names, ", "))
			if msg := replayRound(rt, c, vs, fmt.Sprintf("height %d", c.Height())); msg != "" {
				rt.Fatalf("VIOLATION C06: T=%s by %s included at height %d; %s", mt, signer, tH, msg)
			}
		}
		// --- far later: around the edge of the creation-height window and beyond (fast-forward, see assumptions)
		if rapid.IntRange(0, 3).Draw(rt, "far") == 0 {
			target := tTx.CreatedHeight + fsm.BlockAcceptanceRange + uint64(rapid.IntRange(-2, 3).Draw(rt, "far-offset"))
			if signer.Kind == cs.KindRLPV2 {
				target = tH + fsm.BlockAcceptanceRange + uint64(rapid.IntRange(-2, 3).Draw(rt, "far-offset-v2"))
			}
			if target > c.Height() {
				if err := c.FastForward(target); err != nil {
					rt.Fatalf("fast forward: %v", err)
				}
				var vs []variant
				names = names[:0]
				for i, n := 0, rapid.IntRange(2, 5).Draw(rt, "n-far"); i < n; i++ {
					v := pool.draw(rt, "far")
					vs = append(vs, v)
					names = append(names, v.label)
					note(v, "far-block")
				}
				cse.Desc("ff->h%d[%s]", c.Height(), strings.Join(names, ", "))
				if msg := replayRound(rt, c, vs, fmt.Sprintf("height %d (T created at %d)", c.Height(), tTx.CreatedHeight)); msg != "" {
					rt.Fatalf("VIOLATION C06: T=%s by %s included at height %d; %s", mt, signer, tH, msg)
				}
			}
		}
		// --- exactly once on the ledger
		c.Use()
		post, _ := c.Scan()
		if msg := ledgerCheck(sc, tTx.Fee, preScan, post, chainID); msg != "" {
			rt.Fatalf("VIOLATION C06: T=%s by %s did not take effect exactly once: %s", mt, signer, msg)
		}
		// --- freshly signed for ANOTHER network / chain id, submitted here: ids that differ from ours only in high bits (truncation),
		// by one, by 2^8 / 2^16, and chain id analogues. "A transaction signed for one network or chain is never executed on another."
		if signer.Kind != cs.KindRLP && signer.Kind != cs.KindRLPV2 && rapid.IntRange(0, 1).Draw(rt, "foreign-ids") == 0 {
			type ids struct{ net, chain uint64 }
			cands := []ids{{netID + 1<<32, chainID}, {netID + 2<<32, chainID}, {netID + 1<<63, chainID}, {netID + 1<<16, chainID}, {netID + 1<<8, chainID}, {netID + 1, chainID},
				{netID, chainID + 1<<32}, {netID, chainID + 1<<16}, {netID, chainID + 1<<8}, {netID, chainID + 1<<63}, {netID + 1<<32, chainID + 1<<32}}
			var vs []variant
			names = names[:0]
			for i, n := 0, rapid.IntRange(1, 4).Draw(rt, "n-foreign"); i < n; i++ {
				f := cands[rapid.IntRange(0, len(cands)-1).Draw(rt, "foreign")]
				me := signer.Address()
				bz, _, err := c.Sign(signer, &fsm.MessageSend{FromAddress: me, ToAddress: cs.Addr(keys.Ed(2500 + salt)), Amount: uint64(100 + i)}, cs.TxOpts{Fee: cs.DefaultFee, Created: c.Height(), NetworkID: f.net, ChainID: f.chain})
				if err != nil {
					rt.Fatalf("harness: sign: %v", err)
				}
				label := fmt.Sprintf("fresh send signed for network %s chain %s", idText(netID, f.net), idText(chainID, f.chain))
				cse.ClassIf(f.net-netID >= 1<<32 || f.chain-chainID >= 1<<32, "foreign-ids=differ-only-above-bit-31")
				vs = append(vs, variant{label: label, class: "foreign-ids", bz: bz, decodes: true, differs: true})
				names = append(names, label)
				cse.Class("trick=signed-for-foreign-ids")
			}
			cse.Desc("h%d[%s]", c.Height(), strings.Join(names, ", "))
			if msg := replayRound(rt, c, vs, fmt.Sprintf("chain %d network %d height %d", chainID, netID, c.Height())); msg != "" {
				rt.Fatalf("VIOLATION C06: %s", strings.Replace(msg, "of an already included transaction was EXECUTED again", "signed for ANOTHER network / chain id was EXECUTED here", 1))
			}
		}
		// --- another chain / network with the same genesis keys
		if rapid.IntRange(0, 1).Draw(rt, "other-chain") == 0 {
			oc, on := chainID, netID
			switch rapid.IntRange(0, 2).Draw(rt, "other-which") {
			case 0:
				oc = chainID + 1
			case 1:
				on = netID + 1
			default:
				oc, on = chainID+4, netID+2
			}
			g2, _ := cs.RichGenesis(oc, cs.GenesisOpts{})
			c2, err := cs.New(cs.Opts{ChainID: oc, NetworkID: on, Genesis: g2})
			if err != nil {
				rt.Fatalf("new chain: %v", err)
			}
			defer c2.Close()
			for i, n := 0, rapid.IntRange(0, 1).Draw(rt, "other-pre"); i < n; i++ {
				mustBlock(rt, c2, cs.BlockSpec{}, "other chain pre-block")
			}
			vs := []variant{pool.fixed[0]}
			names = []string{"T"}
			for i, n := 0, rapid.IntRange(0, 3).Draw(rt, "n-other"); i < n; i++ {
				v := pool.draw(rt, "other")
				vs = append(vs, v)
				names = append(names, v.label)
			}
			cse.Class(fmt.Sprintf("place=other-chain(chain%+d,net%+d)", int(oc)-int(chainID), int(on)-int(netID)))
			cse.Desc("chain=%d/net=%d h%d[%s]", oc, on, c2.Height(), strings.Join(names, ", "))
			if msg := replayRound(rt, c2, vs, fmt.Sprintf("chain %d network %d height %d", oc, on, c2.Height())); msg != "" {
				rt.Fatalf("VIOLATION C06: T=%s by %s signed for chain %d network %d; %s", mt, signer, chainID, netID, msg)
			}
		}
		cse.Done(nontriv)
	})
}

func dedup(txs [][]byte) [][]byte {
	seen := map[string]bool{}
	var out [][]byte
	for _, tx := range txs {
		if !seen[string(tx)] {
			seen[string(tx)] = true
			out = append(out, tx)
		}
	}
	return out
}

// idText renders a foreign id relative to ours.
func idText(ours, theirs uint64) string {
	switch d := theirs - ours; {
	case d == 0:
		return fmt.Sprintf("%d(ours)", ours)
	case d >= 1<<8:
		return fmt.Sprintf("%d+2^%d", ours, log2(d))
	default:
		return fmt.Sprintf("%d+%d", ours, d)
	}
}

// log2 of a power of two (0 for 0): label helper.
func log2(v uint64) int {
	n := 0
	for v > 1 {
		v >>= 1
		n++
	}
	return n
}
