package c06

import (
	"testing"

	"github.com/canopy-network/canopy/fsm"
	"github.com/canopy-network/canopy/lib/crypto"

	cs "verif/h/chainsim"
	"verif/h/keys"
)

// TestC06Reg_ReencodedReplay is the minimal reproduction of finding 4.2 (KF-C06-reencoding, fixed by /repo commit 68ea833):
// the identity of a transaction is the hash of its raw bytes, the signature covers the re-marshalled content. Appending
// 0x50 0x00 (field 10 = nonce, varint 0: an explicit default) to an included send, or writing the same Ethereum public key in
// its 65 byte form, gave new bytes with the same valid signature - and the send executed a second time.
func TestC06Reg_ReencodedReplay(t *testing.T) {
	g, _ := cs.RichGenesis(1, cs.GenesisOpts{})
	c, err := cs.New(cs.Opts{Genesis: g})
	if err != nil {
		t.Fatal(err)
	}
	defer c.Close()
	mustBlock(t, c, cs.BlockSpec{}, "block 1")
	to, to2 := cs.Addr(keys.Ed(4001)), cs.Addr(keys.Ed(4002))
	t1, _, err := c.SignTx(keys.Ed(10), &fsm.MessageSend{FromAddress: cs.Addr(keys.Ed(10)), ToAddress: to, Amount: 1000}, 10000, c.Height(), "")
	if err != nil {
		t.Fatal(err)
	}
	t2, tx2, err := c.SignTx(keys.Eth(10), &fsm.MessageSend{FromAddress: cs.Addr(keys.Eth(10)), ToAddress: to2, Amount: 1000}, 10000, c.Height(), "")
	if err != nil {
		t.Fatal(err)
	}
	out := mustBlock(t, c, cs.BlockSpec{Txs: [][]byte{t1, t2}}, "block 2")
	if out.Err != nil || len(out.Results.Failed) != 0 {
		t.Fatalf("originals rejected: %v %v", out.Err, summarize(out).failed)
	}
	v1 := append(append([]byte{}, t1...), 0x50, 0x00)
	tx2.Signature.PublicKey = append([]byte{0x04}, tx2.Signature.PublicKey...)
	v2 := cs.MustMarshal(tx2)
	out = mustBlock(t, c, cs.BlockSpec{Txs: [][]byte{v1, v2}}, "block 3")
	if out.Err != nil {
		t.Fatalf("block failed: %v", out.Err)
	}
	res := summarize(out)
	sc, _ := c.Scan()
	b1, b2 := cs.AccountIn(sc, to).Amount, cs.AccountIn(sc, to2).Amount
	if res.included[crypto.HashString(v1)] || b1 != 1000 {
		t.Errorf("send + appended 0x50 0x00 executed again: recipient has %d, one transfer is 1000", b1)
	}
	if res.included[crypto.HashString(v2)] || b2 != 1000 {
		t.Errorf("send with the 65-byte form of the same eth public key executed again: recipient has %d, one transfer is 1000", b2)
	}
}
