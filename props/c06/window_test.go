package c06

import (
	"fmt"
	"math"
	"sort"
	"strings"
	"testing"

	"github.com/canopy-network/canopy/fsm"
	"github.com/canopy-network/canopy/lib/crypto"
	"pgregory.net/rapid"

	cs "verif/h/chainsim"
	"verif/h/ev"
	"verif/h/keys"
)

// wtx is one freshly signed transaction of the window test.
type wtx struct {
	bz      []byte
	created uint64
	amount  uint64
	to      []byte
	label   string
	done    bool // executed once already
}

// inWindow is the acceptance rule of the property text: created height within +-BlockAcceptanceRange of the height of the block
// (the state machine enforces it from height 2 on, see assumptions).
func inWindow(h, created uint64) bool {
	if h < 2 {
		return true
	}
	lo := uint64(0)
	if h > fsm.BlockAcceptanceRange {
		lo = h - fsm.BlockAcceptanceRange
	}
	return created >= lo && created <= h+fsm.BlockAcceptanceRange && created != 0
}

// TestC06Window: freshly signed transactions whose created height sits on / next to both edges of the acceptance window, at low
// heights and beyond height 4320 (fast-forward), then the same byte strings again at later heights chosen around the point
// where they leave the window. Model: a transaction executes iff it is inside the window and never executed before.
func TestC06Window(t *testing.T) {
	rec := ev.New(t, "C06")
	rapid.Check(t, func(rt *rapid.T) {
		cse := rec.Case()
		g, _ := cs.RichGenesis(1, cs.GenesisOpts{})
		c, err := cs.New(cs.Opts{Genesis: g})
		if err != nil {
			rt.Fatalf("new chain: %v", err)
		}
		defer c.Close()
		mustBlock(rt, c, cs.BlockSpec{}, "block 1")
		high := rapid.Bool().Draw(rt, "beyond-4320")
		if high {
			h := uint64(fsm.BlockAcceptanceRange) + uint64(rapid.SampledFrom([]int{-1, 0, 1, 2, 3, 700, 4321, 9000}).Draw(rt, "start-height"))
			if err := c.FastForward(h); err != nil {
				rt.Fatalf("fast forward: %v", err)
			}
			cse.Class("start=beyond-window-size")
		} else {
			for i, n := 0, rapid.IntRange(0, 2).Draw(rt, "low-blocks"); i < n; i++ {
				mustBlock(rt, c, cs.BlockSpec{}, "low block")
			}
			cse.Class("start=low-height")
		}
		cse.Desc("start h%d", c.Height())
		var all []*wtx
		salt := 0
		nontriv := false
		mk := func(h uint64) *wtx {
			R := uint64(fsm.BlockAcceptanceRange)
			cands := []uint64{h, h + 1, h + R - 1, h + R, h + R, h + R + 1, h + R + 1, h + R + 2, 1, 2, math.MaxUint64, 1 << 63, 1 << 32}
			for _, d := range []uint64{1, R - 1, R, R, R + 1, R + 1, R + 2} {
				if h > d {
					cands = append(cands, h-d)
				}
			}
			created := rapid.SampledFrom(cands).Draw(rt, "created")
			kind := rapid.SampledFrom([]int{cs.KindBLS, cs.KindEd, cs.KindSecp, cs.KindEth, cs.KindRLP}).Draw(rt, "kind")
			salt++
			s := cs.Signer{Kind: kind, Key: 10 + salt%6, TxType: salt % 3}
			w := &wtx{created: created, amount: uint64(1000 + salt), to: cs.Addr(keys.Ed(5000 + salt))}
			bz, _, err := c.Sign(s, &fsm.MessageSend{FromAddress: s.Address(), ToAddress: w.to, Amount: w.amount}, cs.TxOpts{Fee: cs.DefaultFee + uint64(salt), Created: created})
			if err != nil {
				rt.Fatalf("sign: %v", err)
			}
			w.bz = bz
			switch {
			case created == h+R || (h > R && created == h-R):
				cse.Class("created=on-edge(inside)")
				nontriv = true
			case created == h+R+1 || (h > R+1 && created == h-R-1):
				cse.Class("created=one-past-edge(outside)")
				nontriv = true
			case !inWindow(h, created):
				cse.Class("created=far-outside")
			default:
				cse.Class("created=inside")
			}
			w.label = fmt.Sprintf("%s created=h%+d", cs.SignerKindName(kind), int64(created-h))
			if created > h+2*R || (h > created && h-created > 2*R) {
				w.label = fmt.Sprintf("%s created=%d", cs.SignerKindName(kind), created)
			}
			return w
		}
		rounds := rapid.IntRange(1, 3).Draw(rt, "rounds")
		for r := 0; r < rounds; r++ {
			if r > 0 {
				// move on: next block, or jump so that an earlier transaction is about to leave / has just left the window
				switch rapid.IntRange(0, 2).Draw(rt, "advance") {
				case 0:
				case 1:
					mustBlock(rt, c, cs.BlockSpec{}, "gap")
				default:
					w := all[rapid.IntRange(0, len(all)-1).Draw(rt, "anchor")]
					if w.created < math.MaxUint64-10000 {
						target := w.created + fsm.BlockAcceptanceRange + uint64(rapid.IntRange(-1, 2).Draw(rt, "jump-offset"))
						if target > c.Height() && target < c.Height()+50000 {
							if err := c.FastForward(target); err != nil {
								rt.Fatalf("fast forward: %v", err)
							}
							cse.Class("jump=to-window-exit-of-earlier-tx")
						}
					}
				}
			}
			h := c.Height()
			var batch []*wtx
			for i, n := 0, rapid.IntRange(1, 4).Draw(rt, "fresh"); i < n; i++ {
				w := mk(h)
				all = append(all, w)
				batch = append(batch, w)
			}
			// resubmit earlier byte strings (executed ones and rejected ones)
			if r > 0 {
				for i, n := 0, rapid.IntRange(1, 4).Draw(rt, "resubmit"); i < n; i++ {
					w := all[rapid.IntRange(0, len(all)-1).Draw(rt, "which")]
					dup := false
					for _, b := range batch {
						dup = dup || b == w
					}
					if !dup {
						batch = append(batch, w)
						cse.ClassIf(w.done, "resubmit=executed-before")
						cse.ClassIf(w.done && inWindow(h, w.created), "resubmit=executed-before,still-in-window")
						cse.ClassIf(w.done && !inWindow(h, w.created), "resubmit=executed-before,left-window")
						cse.ClassIf(!w.done, "resubmit=rejected-before")
						nontriv = nontriv || w.done
					}
				}
			}
			var txs, expect [][]byte
			var names []string
			want := map[string]bool{}
			for _, w := range batch {
				txs = append(txs, w.bz)
				ok := !w.done && inWindow(h, w.created)
				names = append(names, fmt.Sprintf("%s%s", w.label, map[bool]string{true: "(again)", false: ""}[w.done]))
				if ok {
					want[crypto.HashString(w.bz)] = true
					expect = append(expect, w.bz)
				}
			}
			cse.Desc("h%d[%s]", h, strings.Join(names, "; "))
			twin, err := c.Fork()
			if err != nil {
				rt.Fatalf("fork: %v", err)
			}
			tm := c.Tick()
			out := mustBlock(rt, c, cs.BlockSpec{Txs: txs, Time: tm}, "window block")
			if out.Err != nil {
				twin.Close()
				rt.Fatalf("VIOLATION C06/C07: block failed as a whole: %v", out.Err)
			}
			res := summarize(out)
			for _, w := range batch {
				hs := crypto.HashString(w.bz)
				if res.included[hs] != want[hs] {
					twin.Close()
					rt.Fatalf("VIOLATION C06: at height %d transaction [%s] (created height %d, executed before=%v): executed=%v, window [%d-%d..%d+%d] and at-most-once require %v; error: %s",
						h, w.label, w.created, w.done, res.included[hs], h, uint64(fsm.BlockAcceptanceRange), h, uint64(fsm.BlockAcceptanceRange), want[hs], res.failed[hs])
				}
				if want[hs] {
					w.done = true
				}
			}
			tout := mustBlock(rt, twin, cs.BlockSpec{Txs: expect, Time: tm}, "window twin")
			if tout.Err != nil || len(tout.Results.Failed) != 0 {
				twin.Close()
				rt.Fatalf("harness: twin rejected the expected transactions: %v %v", tout.Err, summarize(tout).failed)
			}
			c.Use()
			a, _ := c.Scan()
			b, _ := twin.Scan()
			twin.Close()
			if d := cs.DiffScans(a, b); d != "" {
				rt.Fatalf("VIOLATION C06: rejected transactions left traces (block with only the accepted ones differs): %s", d)
			}
		}
		// ledger: every recipient got its amount exactly if its transaction executed, else nothing
		post, _ := c.Scan()
		sort.Slice(all, func(i, j int) bool { return all[i].amount < all[j].amount })
		for _, w := range all {
			want := uint64(0)
			if w.done {
				want = w.amount
			}
			if got := cs.AccountIn(post, w.to).Amount; got != want {
				rt.Fatalf("VIOLATION C06: recipient of [%s] holds %d, expected %d", w.label, got, want)
			}
		}
		cse.Done(nontriv)
	})
}
