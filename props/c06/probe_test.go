package c06

import (
	"testing"
	"time"

	"github.com/canopy-network/canopy/fsm"

	"verif/h/chainsim"
	"verif/h/keys"
)

func TestProbeTiming(t *testing.T) {
	t0 := time.Now()
	g := chainsim.BuildGenesis(1, []chainsim.ValSpec{{Key: 0, OutputKey: -1, Stake: 1000000}, {Key: 1, OutputKey: -1, Stake: 1000000}, {Key: 2, OutputKey: 3, Stake: 1000000}},
		[]chainsim.AcctSpec{{0, 10, 1_000_000_000}, {1, 10, 2_000_000_000}, {2, 10, 2_000_000_000}, {3, 10, 2_000_000_000}}, nil, nil)
	c, err := chainsim.New(chainsim.Opts{Genesis: g})
	if err != nil {
		t.Fatal(err)
	}
	defer c.Close()
	t.Logf("new: %v", time.Since(t0))
	t0 = time.Now()
	for i := 0; i < 10; i++ {
		tx, _, _ := c.SignTx(keys.Ed(10), &fsm.MessageSend{FromAddress: chainsim.Addr(keys.Ed(10)), ToAddress: chainsim.Addr(keys.Ed(99)), Amount: 5}, 10000, c.Height(), "")
		t1 := time.Now()
		out, err := c.Block(chainsim.BlockSpec{Txs: [][]byte{tx}})
		t.Logf("block %d: %v", i, time.Since(t1))
		if err != nil || out.Err != nil || len(out.Results.Failed) > 0 {
			t.Fatal(err, out.Err)
		}
	}
	t.Logf("10 blocks: %v", time.Since(t0))
	t0 = time.Now()
	for i := 0; i < 10; i++ {
		f, err := c.Fork()
		if err != nil {
			t.Fatal(err)
		}
		f.Close()
	}
	t.Logf("10 forks: %v", time.Since(t0))
	t0 = time.Now()
	for i := 0; i < 10; i++ {
		c.Scan()
	}
	t.Logf("10 scans: %v", time.Since(t0))
	t0 = time.Now()
	for i := 0; i < 1000; i++ {
		if _, e := c.Store.Commit(); e != nil {
			t.Fatal(e)
		}
	}
	t.Logf("1000 raw commits: %v version=%d", time.Since(t0), c.Store.Version())
}
