package c12

import (
	"testing"

	"github.com/canopy-network/canopy/fsm"
	"github.com/canopy-network/canopy/lib"

	cs "verif/h/chainsim"
)

// TestC12Reg_SlashToZeroWhileUnstaking reproduces finding 4.3 minimally with default parameters (stake 1 allowed,
// double-sign slash 10 %): a validator with stake 1 starts unstaking, the next certificate names it as double signer,
// the slash floors 1 -> 0 and deletes the record. Before /repo commit 70e9813 the unstaking marker stayed behind and
// every block at the unstaking height failed in EndBlock ("validator does not exist"): the chain was wedged for good.
func TestC12Reg_SlashToZeroWhileUnstaking(t *testing.T) {
	p := fsm.DefaultParams()
	p.Validator.UnstakingBlocks = 3
	g := cs.BuildGenesis(1, []cs.ValSpec{
		{Key: 0, OutputKey: -1, Stake: 1_000_000}, {Key: 1, OutputKey: -1, Stake: 1_000_000}, {Key: 2, OutputKey: -1, Stake: 1},
	}, []cs.AcctSpec{{Kind: 0, Key: 2, Amount: 1_000_000}}, nil, p)
	c, err := cs.New(cs.Opts{Genesis: g})
	if err != nil {
		t.Fatal(err)
	}
	defer c.Close()
	v2 := cs.OpKey(2)
	// height 1: v2 begins unstaking (finishes at height 1+3 = 4); the certificate of block 1 reports v2 as double signer at height 1
	tx, _, err := c.SignTx(v2, &fsm.MessageUnstake{Address: cs.Addr(v2)}, 10000, 1, "")
	if err != nil {
		t.Fatal(err)
	}
	res := &lib.CertificateResult{
		RewardRecipients: &lib.RewardRecipients{PaymentPercents: []*lib.PaymentPercents{{Address: cs.Addr(cs.OpKey(0)), Percent: 100, ChainId: 1}}},
		SlashRecipients:  &lib.SlashRecipients{DoubleSigners: []*lib.DoubleSigner{{Id: v2.PublicKey().Bytes(), Heights: []uint64{1}}}},
	}
	out, err := c.Block(cs.BlockSpec{Txs: [][]byte{tx}, Results: res})
	if err != nil || out.Err != nil {
		t.Fatalf("block 1: %v %v", err, out.Err)
	}
	if len(out.Results.Failed) != 0 {
		t.Fatalf("unstake failed: %v", out.Results.Failed[0].Error)
	}
	rs, _ := c.FullState()
	if len(rs.Unstaking) != 1 || rs.Unstaking[0].Height != 4 {
		t.Fatalf("expected one unstaking marker at height 4, got %+v", rs.Unstaking)
	}
	// height 2: BeginBlock slashes 10 % of 1 -> 0 and deletes v2
	for h := uint64(2); h <= 6; h++ {
		out, err = c.Block(cs.BlockSpec{})
		if err != nil {
			t.Fatalf("block %d: %v", h, err)
		}
		if out.Err != nil {
			t.Fatalf("WEDGE: empty block at height %d cannot be applied: %v", h, out.Err)
		}
		rs, err = c.FullState()
		if err != nil {
			t.Fatal(err)
		}
		if h == 2 {
			if _, still := rs.Validators[string(cs.Addr(v2))]; still {
				t.Fatalf("precondition: v2 should have been slashed to zero and deleted at height 2")
			}
		}
		if err = CheckStaking(rs); err != nil {
			t.Fatalf("after block %d: %v", h, err)
		}
	}
}

// TestC12Reg_SlashedDelegateTallies: SlashValidator treats every record as a non-delegate validator. A key that was a
// committee member (so that double-sign evidence against it exists), whose record was deleted (here: slashed to zero) and
// that staked again as a DELEGATE, is slashed through UpdateCommittees + SubFromStakedSupply only: Supply.DelegatedOnly
// and CommitteeDelegatedOnly[c] keep the burned amount for ever (and under protocol 1 a committee-membership key is
// written for a delegate). Violates "delegated and per-committee tallies equal the sums over validator records".
func TestC12Reg_SlashedDelegateTallies(t *testing.T) {
	p := fsm.DefaultParams() // unstaking blocks 2, double-sign slash 10 %
	g := cs.BuildGenesis(1, []cs.ValSpec{
		{Key: 0, OutputKey: -1, Stake: 1_000_000}, {Key: 1, OutputKey: -1, Stake: 1_000_000}, {Key: 2, OutputKey: -1, Stake: 1},
	}, []cs.AcctSpec{{Kind: 0, Key: 2, Amount: 1_000_000}}, nil, p)
	c, err := cs.New(cs.Opts{Genesis: g})
	if err != nil {
		t.Fatal(err)
	}
	defer c.Close()
	v2 := cs.OpKey(2)
	ds := func(h uint64) *lib.CertificateResult {
		return &lib.CertificateResult{
			RewardRecipients: &lib.RewardRecipients{PaymentPercents: []*lib.PaymentPercents{{Address: cs.Addr(cs.OpKey(0)), Percent: 100, ChainId: 1}}},
			SlashRecipients:  &lib.SlashRecipients{DoubleSigners: []*lib.DoubleSigner{{Id: v2.PublicKey().Bytes(), Heights: []uint64{h}}}},
		}
	}
	step := func(spec cs.BlockSpec) *cs.Outcome {
		h := c.Height()
		out, err := c.Block(spec)
		if err != nil || out.Err != nil {
			t.Fatalf("block %d: %v %v", h, err, out.Err)
		}
		for _, f := range out.Results.Failed {
			t.Fatalf("block %d: tx failed: %v", h, f.Error)
		}
		return out
	}
	// v2 (stake 1) is a committee member at heights 1 and 2
	step(cs.BlockSpec{})               // height 1
	step(cs.BlockSpec{Results: ds(1)}) // height 2: certificate reports v2 double-signing at height 1
	// height 3: BeginBlock slashes 1 -> 0 and deletes v2; in the same block the key stakes again, as a delegate
	tx, _, err := c.SignTx(v2, &fsm.MessageStake{PublicKey: v2.PublicKey().Bytes(), Amount: 1000, Committees: []uint64{1}, OutputAddress: cs.Addr(v2), Delegate: true}, 10000, 3, "")
	if err != nil {
		t.Fatal(err)
	}
	step(cs.BlockSpec{Txs: [][]byte{tx}, Results: ds(2)}) // certificate reports the second double sign (height 2, v2 was a member)
	rs, _ := c.FullState()
	if v := rs.Validators[string(cs.Addr(v2))]; v == nil || !v.Delegate || v.StakedAmount != 1000 {
		t.Fatalf("precondition: v2 should be a delegate with stake 1000, got %+v", v)
	}
	if err = CheckStaking(rs); err != nil {
		t.Fatalf("before the slash: %v", err)
	}
	step(cs.BlockSpec{}) // height 4: BeginBlock slashes the delegate by 10 %
	rs, _ = c.FullState()
	if v := rs.Validators[string(cs.Addr(v2))]; v == nil || v.StakedAmount != 900 {
		t.Fatalf("precondition: delegate v2 should have been slashed to 900, got %+v", v)
	}
	if err = CheckStaking(rs); err != nil {
		t.Fatalf("after slashing a delegate: %v", err)
	}
}

// TestC12Reg_DaoPercentZeroWedge: the governance parameter space has a single field (daoRewardPercentage, valid range
// 0..100). Set to 0 its protobuf encoding is empty, the state stores an empty value, and getParams treats an empty value
// as "governance params empty": BeginBlock (FundCommitteeRewardPools -> GetBlockMintStats -> GetParamsGov) fails for
// every following block. One approved change-parameter transaction wedges the chain for good.
func TestC12Reg_DaoPercentZeroWedge(t *testing.T) {
	g := cs.BuildGenesis(1, []cs.ValSpec{{Key: 0, OutputKey: -1, Stake: 1_000_000}, {Key: 1, OutputKey: -1, Stake: 1_000_000}},
		[]cs.AcctSpec{{Kind: 0, Key: 0, Amount: 1_000_000}}, nil, nil)
	c, err := cs.New(cs.Opts{Genesis: g})
	if err != nil {
		t.Fatal(err)
	}
	defer c.Close()
	k := cs.OpKey(0)
	val, _ := lib.NewAny(&lib.UInt64Wrapper{Value: 0})
	tx, _, err := c.SignTx(k, &fsm.MessageChangeParameter{ParameterSpace: fsm.ParamSpaceGov, ParameterKey: fsm.ParamDAORewardPercentage, ParameterValue: val,
		StartHeight: 0, EndHeight: 100, Signer: cs.Addr(k)}, 10000, 1, "")
	if err != nil {
		t.Fatal(err)
	}
	out, err := c.Block(cs.BlockSpec{Txs: [][]byte{tx}})
	if err != nil || out.Err != nil {
		t.Fatalf("block 1: %v %v", err, out.Err)
	}
	if len(out.Results.Failed) != 0 {
		t.Fatalf("precondition: the parameter change should be accepted: %v", out.Results.Failed[0].Error)
	}
	for h := uint64(2); h <= 4; h++ {
		out, err = c.Block(cs.BlockSpec{})
		if err != nil {
			t.Fatalf("block %d: %v", h, err)
		}
		if out.Err != nil {
			t.Fatalf("WEDGE: after daoRewardPercentage=0 an empty block at height %d cannot be applied: %v", h, out.Err)
		}
	}
}

// TestC12Reg_RootSwitchWedge: a nested chain (id 2 under root chain 1, the root is 1000 blocks ahead) becomes its own
// root through an approved change-parameter cons/rootChainID = 2. ConformStateToParamUpdate resets the own committee's
// LastRootHeightUpdated inside that block - but the block's OWN certificate was built under the old root and carries the
// old root's height (bft sets View.RootHeight from the root chain's height when the height starts). It is handled in
// the next BeginBlock and writes the foreign height back. The certificate after that carries the chain's own height,
// which is below it: "invalid certificate root-chain height" in every BeginBlock from then on.
func TestC12Reg_RootSwitchWedge(t *testing.T) {
	p := fsm.DefaultParams()
	p.Consensus.RootChainId = 1
	g := cs.BuildGenesis(2, []cs.ValSpec{{Key: 0, OutputKey: -1, Stake: 1_000_000}, {Key: 1, OutputKey: -1, Stake: 1_000_000}},
		[]cs.AcctSpec{{Kind: 0, Key: 0, Amount: 1_000_000}}, nil, p)
	c, err := cs.New(cs.Opts{ChainID: 2, Genesis: g})
	if err != nil {
		t.Fatal(err)
	}
	defer c.Close()
	k := cs.OpKey(0)
	val, _ := lib.NewAny(&lib.UInt64Wrapper{Value: 2})
	for h := uint64(1); h <= 8; h++ {
		spec := cs.BlockSpec{}
		if h <= 3 {
			spec.RootHeight = h + 1000 // built while chain 1 was the root
		}
		if h == 3 {
			tx, _, err := c.SignTx(k, &fsm.MessageChangeParameter{ParameterSpace: fsm.ParamSpaceCons, ParameterKey: fsm.ParamRootChainId, ParameterValue: val,
				StartHeight: 0, EndHeight: 100, Signer: cs.Addr(k)}, 10000, h, "")
			if err != nil {
				t.Fatal(err)
			}
			spec.Txs = [][]byte{tx}
		}
		out, err := c.Block(spec)
		if err != nil {
			t.Fatalf("block %d: %v", h, err)
		}
		if out.Err != nil {
			t.Fatalf("WEDGE: block %d cannot be applied after the chain became its own root in block 3: %v", h, out.Err)
		}
		if h == 3 && len(out.Results.Failed) != 0 {
			t.Fatalf("precondition: the parameter change should be accepted: %v", out.Results.Failed[0].Error)
		}
	}
}
