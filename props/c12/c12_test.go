// Package c12 decides property C12: staking bookkeeping stays consistent and the chain never wedges itself.
package c12

import (
	"fmt"
	"math/big"
	"os"
	"sort"
	"strings"
	"testing"

	"github.com/canopy-network/canopy/fsm"
	"github.com/canopy-network/canopy/lib"
	"pgregory.net/rapid"

	cs "verif/h/chainsim"
	"verif/h/ev"
)

// CheckStaking is the bookkeeping oracle over a raw state scan (big integers, no state machine getter involved).
//
// Semantics read from fsm/validator.go + fsm/committee.go (identical under protocol version 1 and 2; version 2 only
// stops maintaining the legacy committee/delegate membership keys and may drop a committee id from a validator record
// on a capped slash, which the sums below follow because they are taken over the validator records):
//
//	Supply.Staked                 = Σ StakedAmount over ALL validator records (validators + delegates, any status)
//	Supply.DelegatedOnly          = Σ StakedAmount over records with Delegate
//	CommitteeStaked[c]            = Σ StakedAmount over records listing c (validators AND delegates, any status:
//	                                pausing/unstaking does not remove a record from the tallies, only deletion does)
//	CommitteeDelegatedOnly[c]     = Σ StakedAmount over delegate records listing c
//	zero entries are filtered out of the lists (FilterAndSortPool), an id appears at most once
func CheckStaking(rs *cs.FullState) error {
	staked, deleg := new(big.Int), new(big.Int)
	cStaked, cDeleg := map[uint64]*big.Int{}, map[uint64]*big.Int{}
	add := func(m map[uint64]*big.Int, c, amt uint64) {
		if m[c] == nil {
			m[c] = new(big.Int)
		}
		m[c].Add(m[c], cs.Big(amt))
	}
	for _, a := range rs.ValOrder {
		v := rs.Validators[a]
		staked.Add(staked, cs.Big(v.StakedAmount))
		if v.Delegate {
			deleg.Add(deleg, cs.Big(v.StakedAmount))
		}
		seen := map[uint64]bool{}
		for _, c := range v.Committees {
			if seen[c] {
				return fmt.Errorf("validator %x lists committee %d twice", v.Address, c)
			}
			seen[c] = true
			add(cStaked, c, v.StakedAmount)
			if v.Delegate {
				add(cDeleg, c, v.StakedAmount)
			}
		}
		if v.MaxPausedHeight != 0 && v.UnstakingHeight != 0 {
			return fmt.Errorf("validator %x is both paused (max paused height %d) and unstaking (height %d)", v.Address, v.MaxPausedHeight, v.UnstakingHeight)
		}
		if v.Delegate && v.MaxPausedHeight != 0 {
			return fmt.Errorf("delegate %x is paused", v.Address)
		}
	}
	if staked.Cmp(cs.Big(rs.Supply.Staked)) != 0 {
		return fmt.Errorf("Supply.Staked=%d but Σ stake=%s", rs.Supply.Staked, staked)
	}
	if deleg.Cmp(cs.Big(rs.Supply.DelegatedOnly)) != 0 {
		return fmt.Errorf("Supply.DelegatedOnly=%d but Σ delegate stake=%s", rs.Supply.DelegatedOnly, deleg)
	}
	cmpList := func(name string, list []*fsm.Pool, want map[uint64]*big.Int) error {
		got := map[uint64]uint64{}
		for _, p := range list {
			if _, dup := got[p.Id]; dup {
				return fmt.Errorf("%s lists committee %d twice", name, p.Id)
			}
			got[p.Id] = p.Amount
		}
		ids := map[uint64]bool{}
		for c := range got {
			ids[c] = true
		}
		for c := range want {
			ids[c] = true
		}
		var sorted []uint64
		for c := range ids {
			sorted = append(sorted, c)
		}
		sort.Slice(sorted, func(i, j int) bool { return sorted[i] < sorted[j] })
		for _, c := range sorted {
			w := want[c]
			if w == nil {
				w = new(big.Int)
			}
			if w.Cmp(cs.Big(got[c])) != 0 {
				return fmt.Errorf("%s[%d]=%d but Σ over validator records listing %d = %s", name, c, got[c], c, w)
			}
		}
		return nil
	}
	if err := cmpList("CommitteeStaked", rs.Supply.CommitteeStaked, cStaked); err != nil {
		return err
	}
	if err := cmpList("CommitteeDelegatedOnly", rs.Supply.CommitteeDelegatedOnly, cDeleg); err != nil {
		return err
	}
	// markers <-> records, both directions, exactly one marker per status
	unst, paused := map[string]uint64{}, map[string]uint64{}
	for _, m := range rs.Unstaking {
		if _, dup := unst[m.Address]; dup {
			return fmt.Errorf("two unstaking markers for %x", m.Address)
		}
		unst[m.Address] = m.Height
		v := rs.Validators[m.Address]
		if v == nil {
			return fmt.Errorf("unstaking marker (height %d) for %x: no such validator", m.Height, m.Address)
		}
		if v.UnstakingHeight != m.Height {
			return fmt.Errorf("unstaking marker at height %d for %x but record says UnstakingHeight=%d", m.Height, m.Address, v.UnstakingHeight)
		}
	}
	for _, m := range rs.Paused {
		if _, dup := paused[m.Address]; dup {
			return fmt.Errorf("two paused markers for %x", m.Address)
		}
		paused[m.Address] = m.Height
		v := rs.Validators[m.Address]
		if v == nil {
			return fmt.Errorf("paused marker (height %d) for %x: no such validator", m.Height, m.Address)
		}
		if v.MaxPausedHeight != m.Height {
			return fmt.Errorf("paused marker at height %d for %x but record says MaxPausedHeight=%d", m.Height, m.Address, v.MaxPausedHeight)
		}
	}
	for _, a := range rs.ValOrder {
		v := rs.Validators[a]
		if v.UnstakingHeight != 0 {
			if _, ok := unst[a]; !ok {
				return fmt.Errorf("validator %x has UnstakingHeight=%d but no unstaking marker", v.Address, v.UnstakingHeight)
			}
		}
		if v.MaxPausedHeight != 0 {
			if _, ok := paused[a]; !ok {
				return fmt.Errorf("validator %x has MaxPausedHeight=%d but no paused marker", v.Address, v.MaxPausedHeight)
			}
		}
	}
	return nil
}

// checkRootFloor: the own committee's LastRootHeightUpdated is the floor for the root height of the next certificate
// (HandleCertificateResults: "invalid certificate root-chain height") and for the build height of every proposal
// (bft.handleProposal: msg.RcBuildHeight < CommitteeData.LastRootHeightUpdated -> round interrupt). If it lies above the
// height the root chain has right now, no proposal for the next block can pass: the chain cannot produce a block.
func checkRootFloor(w *cs.World, c *cs.Chain, rs *cs.FullState) error {
	if rs.Committees == nil {
		return nil
	}
	now := w.EmptySpec(c).RootHeight
	if now == 0 {
		now = c.Height() // its own root
	}
	for _, d := range rs.Committees.List {
		if d.ChainId == w.Opts.ChainID && d.LastRootHeightUpdated > now {
			return fmt.Errorf("WEDGE: the own committee data demands root height >= %d but the root chain (id %d) is at height %d: no proposal / certificate for height %d can be accepted",
				d.LastRootHeightUpdated, rs.ConsParams.RootChainId, now, c.Height())
		}
	}
	return nil
}

// maxMarker returns the largest pending deferred height (0 when none).
func maxMarker(rs *cs.FullState) (m uint64) {
	for _, x := range rs.Unstaking {
		m = max(m, x.Height)
	}
	for _, x := range rs.Paused {
		m = max(m, x.Height)
	}
	return
}

// markerPrint fingerprints everything the deferred actions will look at: the markers, the records they point to and the
// parameters that decide what firing does.
func markerPrint(rs *cs.FullState) string {
	var b strings.Builder
	rec := func(a string) {
		if v := rs.Validators[a]; v != nil {
			fmt.Fprintf(&b, "(%d %v %d %d %v %x)", v.StakedAmount, v.Committees, v.MaxPausedHeight, v.UnstakingHeight, v.Delegate, v.Output)
		} else {
			b.WriteString("(gone)")
		}
	}
	for _, m := range rs.Unstaking {
		fmt.Fprintf(&b, "u%d/%x", m.Height, m.Address)
		rec(m.Address)
	}
	for _, m := range rs.Paused {
		fmt.Fprintf(&b, "p%d/%x", m.Height, m.Address)
		rec(m.Address)
	}
	if p := rs.ValParams; p != nil {
		fmt.Fprintf(&b, "|%d %d %d %d %d", p.UnstakingBlocks, p.DelegateUnstakingBlocks, p.MaxPauseBlocks, p.MinimumStakeForValidators, p.MinimumStakeForDelegates)
	}
	if p := rs.ConsParams; p != nil {
		b.WriteString(p.ProtocolVersion)
	}
	return b.String()
}

// lookAhead applies empty blocks on a fork until no deferred marker is pending (at most maxBlocks): every one must apply.
func lookAhead(w *cs.World, maxBlocks int) (applied int, err error) {
	c := w.C
	f, e := c.Fork()
	if e != nil {
		return 0, fmt.Errorf("fork: %v", e)
	}
	defer f.Close()
	for i := 0; i < maxBlocks; i++ {
		rs, e := f.FullState()
		if e != nil {
			return applied, e
		}
		if e = CheckStaking(rs); e != nil {
			return applied, fmt.Errorf("look-ahead state at height %d: %v", f.Height(), e)
		}
		if e = checkRootFloor(w, f, rs); e != nil {
			return applied, fmt.Errorf("look-ahead state at height %d: %v", f.Height(), e)
		}
		mm := maxMarker(rs)
		if mm == 0 || f.Height() > mm+1 {
			return applied, nil
		}
		h := f.Height()
		out, e := f.Block(w.EmptySpec(f))
		if e != nil {
			return applied, fmt.Errorf("look-ahead commit at height %d: %v", h, e)
		}
		if out.Err != nil {
			return applied, fmt.Errorf("WEDGE: an EMPTY block at height %d cannot be applied: %v (pending markers up to height %d)", h, out.Err, mm)
		}
		applied++
	}
	return applied, nil
}

func worldOpts(t cs.Src) cs.WorldOpts {
	o := cs.WorldOpts{}
	// a few genesis validators beside the pillars so that the first blocks already have targets
	n := t.Int("genvals", 0, 4)
	for i := 0; i < n; i++ {
		v := cs.ValSpec{Key: 2 + i, OutputKey: -1, Stake: uint64(t.Int("genstake", 1, 12)), Compound: t.Int("gencomp", 0, 1) == 1}
		if t.Int("gennoncust", 0, 2) == 0 {
			v.OutputKey = t.Int("genout", 0, 3)
		}
		if t.Int("gendeleg", 0, 3) == 0 {
			v.Delegate = true
		}
		switch t.Int("gencmt", 0, 2) {
		case 0:
			v.Committees = []uint64{1}
		case 1:
			v.Committees = []uint64{1, 2}
		default:
			v.Committees = []uint64{2, 1, 3}
		}
		o.Vals = append(o.Vals, v)
	}
	p := cs.StakingParams()
	p.Validator.UnstakingBlocks = uint64(t.Int("ub", 1, 4))
	p.Validator.DelegateUnstakingBlocks = uint64(t.Int("dub", 2, 3))
	p.Validator.MaxPauseBlocks = uint64(t.Int("mpb", 1, 4))
	p.Validator.NonSignWindow = uint64([]int{2, 3, 4, 4, 6}[t.Int("nsw", 0, 4)])
	p.Validator.MaxNonSign = min(uint64(t.Int("mns", 0, 2)), p.Validator.NonSignWindow)
	if t.Int("nested", 0, 4) == 0 {
		// a nested chain (chain id 2 under root chain 1) whose root is ahead of it; governance may make it its own root
		o.ChainID, o.RootSwitch = 2, true
		switch t.Int("rootoffset", 0, 4) {
		case 0:
		case 1:
			o.RootAhead = 7
		case 2:
			o.RootAhead = 1000
		default:
			o.RootBehind = uint64(t.Int("rootbehind", 2, 6)) // the root chain is younger than this chain
		}
		p.Consensus.RootChainId = uint64(t.Int("genroot", 1, 2)) // starts nested under 1, or as its own root (and may go under 1 later)
		for i := range o.Vals {
			o.Vals[i].Committees = [][]uint64{{2}, {2, 1}, {1, 2, 3}}[t.Int("gencmt2", 0, 2)]
		}
	}
	if t.Int("pv2", 0, 3) == 0 {
		p.Consensus.ProtocolVersion = fsm.NewProtocolVersion(0, 2)
	}
	if t.Int("genretired", 0, 7) == 0 {
		p.Consensus.Retired = 1 // the chain has announced its retirement: every own certificate is stamped Retired
	}
	o.Params = p
	o.Weights = map[cs.OpKind]int{}
	for k, v := range cs.DefaultStakingWeights {
		o.Weights[k] = v
	}
	o.Weights[cs.OpCertResults] = 2 // certificate results of committee 2 (slashes by another committee, Retired)
	if o.ChainID == 2 {
		o.Weights[cs.OpCertResults] = 0 // a chain accepts no certificate-results transaction of itself
		o.Weights[cs.OpParam] = 4
	}
	return o
}

func TestC12History(t *testing.T) {
	rec := ev.New(t, "C12")
	nblocks := 20
	if s := os.Getenv("VERIF_C12_BLOCKS"); s != "" {
		fmt.Sscan(s, &nblocks)
	}
	rapid.Check(t, func(rt *rapid.T) {
		c := rec.Case()
		src := cs.Rapid(rt)
		opts := worldOpts(src)
		if ev.Open("KF-C12-slash-zero-unstaking") {
			opts.NoSlash = true
			rec.Exclude("KF-C12-slash-zero-unstaking")
		}
		if ev.Open("KF-C12-slash-delegate-tallies") {
			opts.NoDelegateRestake = true
			opts.OnExclude = rec.Exclude
		}
		if (opts.RootAhead > 0 || opts.RootBehind > 0) && ev.Open("KF-C12-root-switch-wedge") {
			opts.RootAhead, opts.RootBehind = 0, 0 // the old and the new root count the same heights: the switching block's certificate does no harm
			rec.Exclude("KF-C12-root-switch-wedge")
		}
		if ev.Open("KF-C12-dao-percent-zero") {
			opts.NoDaoZero = true
			opts.OnExclude = rec.Exclude
		}
		w, err := cs.NewWorld(src, opts)
		if err != nil {
			rt.Fatalf("world: %v", err)
		}
		defer w.Close()
		c.Desc("genesis chain=%d root=%d ahead=%d behind=%d ub=%d dub=%d mpb=%d nsw=%d mns=%d pv=%s vals=%d", max(opts.ChainID, 1), opts.Params.Consensus.RootChainId, opts.RootAhead, opts.RootBehind,
			opts.Params.Validator.UnstakingBlocks, opts.Params.Validator.DelegateUnstakingBlocks, opts.Params.Validator.MaxPauseBlocks,
			opts.Params.Validator.NonSignWindow, opts.Params.Validator.MaxNonSign, opts.Params.Consensus.ProtocolVersion, len(opts.Vals))
		rs, err := w.C.FullState()
		if err != nil {
			rt.Fatalf("scan: %v", err)
		}
		if err = CheckStaking(rs); err != nil {
			rt.Fatalf("genesis state: %v", err)
		}
		lastPrint := markerPrint(rs)
		prev := rs
		nontrivial, lookAheads, laBlocks := false, 0, 0
		n := rapid.IntRange(nblocks/2, nblocks).Draw(rt, "nblocks")
		for i := 0; i < n; i++ {
			h := w.C.Height()
			_, out, err := w.Step()
			if err != nil {
				rt.Fatalf("harness error at height %d: %v\n%s", h, err, w.HistoryString())
			}
			if out.Err != nil {
				rt.Fatalf("WEDGE: proposer-path ApplyBlock failed at height %d: %v\nhistory:\n%s", h, out.Err, w.HistoryString())
			}
			rs, err = w.C.FullState()
			if err != nil {
				rt.Fatalf("scan: %v", err)
			}
			if err = CheckStaking(rs); err != nil {
				rt.Fatalf("after block %d: %v\nhistory:\n%s", h, err, w.HistoryString())
			}
			if err = checkRootFloor(w, w.C, rs); err != nil {
				rt.Fatalf("after block %d: %v\nhistory:\n%s", h, err, w.HistoryString())
			}
			// non-trivial: a marker that was pending before and is still pending now while its record or the parameters changed
			if !nontrivial {
				nontrivial = markerOutlivedChange(prev, rs)
			}
			prev = rs
			// no-wedge look-ahead whenever something the deferred actions depend on changed
			if mm := maxMarker(rs); mm != 0 {
				if p := markerPrint(rs); p != lastPrint {
					lastPrint = p
					k, err := lookAhead(w, 16)
					if err != nil {
						rt.Fatalf("after block %d: %v\nhistory:\n%s", h, err, w.HistoryString())
					}
					lookAheads++
					laBlocks += k
				}
			} else {
				lastPrint = ""
			}
		}
		// final: run the chain itself dry (every remaining marker fires on the real chain too)
		if _, err := lookAhead(w, 16); err != nil {
			rt.Fatalf("final look-ahead: %v\nhistory:\n%s", err, w.HistoryString())
		}
		c.Desc("%s", w.HistoryString())
		classify(c, w, lookAheads, laBlocks, nontrivial)
		c.Done(nontrivial)
	})
}

// markerOutlivedChange reports whether some marker is pending in both states while the record it points to (or a
// parameter that governs firing) differs.
func markerOutlivedChange(a, b *cs.FullState) bool {
	pending := map[string]bool{}
	for _, m := range a.Unstaking {
		pending[fmt.Sprintf("u%d/%s", m.Height, m.Address)] = true
	}
	for _, m := range a.Paused {
		pending[fmt.Sprintf("p%d/%s", m.Height, m.Address)] = true
	}
	paramsChanged := a.ValParams.String() != b.ValParams.String() || a.ConsParams.ProtocolVersion != b.ConsParams.ProtocolVersion
	chk := func(kind string, m cs.Marker) bool {
		if !pending[fmt.Sprintf("%s%d/%s", kind, m.Height, m.Address)] {
			return false
		}
		if paramsChanged {
			return true
		}
		va, vb := a.Validators[m.Address], b.Validators[m.Address]
		return va != nil && vb != nil && (va.StakedAmount != vb.StakedAmount || fmt.Sprint(va.Committees) != fmt.Sprint(vb.Committees) ||
			string(va.Output) != string(vb.Output) || va.Compound != vb.Compound)
	}
	for _, m := range b.Unstaking {
		if chk("u", m) {
			return true
		}
	}
	for _, m := range b.Paused {
		if chk("p", m) {
			return true
		}
	}
	// a marker that disappeared together with its record before its height (slash to zero)
	for _, m := range a.Unstaking {
		if b.Validators[m.Address] == nil && a.Validators[m.Address] != nil && a.Validators[m.Address].UnstakingHeight > 0 {
			return true
		}
	}
	return false
}

func classify(c *ev.Case, w *cs.World, lookAheads, laBlocks int, nontrivial bool) {
	for _, k := range []string{"stake", "edit-stake", "pause", "unpause", "unstake", "change-param", "certificate-results"} {
		c.ClassIf(w.Stats[k+".ok"] > 0, "tx:"+k+" ok")
		c.ClassIf(w.Stats[k+".fail"] > 0, "tx:"+k+" failed (meant valid)")
		c.ClassIf(w.Stats[k+".rejected-on-purpose"] > 0, "tx:"+k+" rejected (meant invalid)")
		c.ClassIf(w.Stats[k+".ok-though-meant-invalid"] > 0, "tx:"+k+" accepted though meant invalid")
	}
	for _, e := range []lib.EventType{lib.EventTypeSlash, lib.EventTypeAutoPause, lib.EventTypeAutoBeginUnstaking, lib.EventTypeFinishUnstaking, lib.EventTypeReward} {
		n := w.Stats["event."+string(e)]
		c.ClassIf(n > 0, "event:"+string(e))
		c.ClassIf(n >= 3, "event:"+string(e)+" x3+")
	}
	hist := w.HistoryString()
	c.ClassIf(w.Opts.ChainID == 2, "nested chain (id 2 under root 1)")
	c.ClassIf(w.Opts.ChainID == 2 && w.Opts.RootAhead > 0 && strings.Contains(hist, "cons/rootChainID=2 ok"), "nested chain with root ahead became its own root")
	c.ClassIf(w.Opts.ChainID == 2 && w.Opts.RootBehind > 0 && strings.Contains(hist, "cons/rootChainID=2 ok"), "nested chain with root behind became its own root")
	c.ClassIf(w.Opts.ChainID == 2 && (w.Opts.RootAhead > 0 || w.Opts.RootBehind > 0) && strings.Contains(hist, "cons/rootChainID=1 ok"), "own-root chain went under a root with different heights")
	c.ClassIf(strings.Contains(hist, " retired "), "cert:own certificate stamped Retired (consensus param retired != 0)")
	c.ClassIf(strings.Contains(hist, "RETIRED ok"), "committee 2 retired by its certificate results")
	c.ClassIf(w.Stats["doublesign-entries"] > 0, "cert:double-signers")
	c.ClassIf(w.Stats["doublesign-entries"] >= 3, "cert:double-signers x3+")
	c.ClassIf(w.Stats["nonsigner-bits"] > 0, "cert:non-signers")
	c.ClassIf(lookAheads > 0, "look-ahead run")
	c.ClassIf(lookAheads >= 5, "look-ahead run x5+")
	c.ClassIf(laBlocks >= 10, "look-ahead blocks x10+")
	c.ClassIf(nontrivial, "marker outlived a change of its validator/params")
	pv := "1"
	if w.C.FSM.IsFeatureEnabled(2) {
		pv = "2"
	}
	c.Class("final protocol version " + pv)
}
