#!/usr/bin/env python3
"""Regenerates /verif/MANIFEST.json from the table below + what exists under props/. A property is claimed only when
props/<id>/check.json exists AND it is listed in CLAIMED below; everything else goes to not_applicable with its reason."""
import json, os, subprocess

ROOT = os.path.dirname(os.path.dirname(os.path.abspath(__file__)))
props = [json.loads(l) for l in open(os.path.join(ROOT, "properties.jsonl"))]

PBT = "property-based testing (pgregory.net/rapid): "
CLAIMED = {
    "C08": dict(
        cat="exploration",
        text="Generated write histories on the real Store and on the SMT at reduced key lengths are compared, after every commit, with an independently written reference commitment (canonical compressed trie over sha256(key)); the persisted tree is compared node-by-node with the canonical tree and a second history reaching the same set must give the same root. Held on everything explored (counts in evidence); not a proof.",
        note="Trusts the reference in h/storemodel/smtref.go (written from the format documentation) and SHA-256; goroutine schedules of the 8 subtree workers are sampled by repetition, not controlled.",
        tech=PBT + "model-based differential against a reference Merkle commitment + history-independence metamorphic relation"),
    "C16": dict(
        cat="exploration",
        text="For generated multi-version store histories every true (non-)membership statement must be provable through the store's own API and verify against the committed root of that version; honest proofs for false statements, proofs of other keys, proofs forged from the reference tree (inner node presented as leaf) and structurally mutated proofs must never be accepted for a false statement nor panic. Ground truth comes from the model. Held on everything explored.",
        note="Ground truth = in-memory model tied to the implementation through C08's reference root; SHA-256 collision resistance assumed; the attacker's forged proofs are those the generator can build (reference-tree paths, splices, bit/structure mutations), not all byte strings.",
        tech=PBT + "completeness/soundness oracle from a reference model, adversarial proof construction + structured mutation"),
    "C10": dict(
        cat="exploration",
        text="Generated operation histories (set/delete/get/forward+reverse prefix iteration/nested transactions with flush or discard/copies/commit/read-only views/flush+compaction/rollback/re-open, plus the indexer keyspace through the checkpoint API) on the real Store are compared answer-by-answer with a reference versioned map; every historical answer is memoised and re-asked after every later commit, compaction, rollback to >= v and re-open and must be byte-identical. Held on everything explored.",
        note="Input domain restricted to what real callers produce (length-prefixed, segment-prefix-free keys; canonical iterator use; offline rollback) - each restriction is listed in evidence assumptions; trusts the reference map h/storemodel/vmap.go.",
        tech=PBT + "stateful model-based testing against a reference versioned map + immutability-of-history re-query invariant"),
    "C09": dict(
        cat="fault_enumeration",
        text="For seeded block workloads on the real Store over pebble's crashable in-memory file system, a crash is injected before EVERY file-system operation (create/write/sync/rename/remove/...) between open and close, each with 0 %, partial and 100 % survival of unsynced data; every crash image is re-opened through the real open path and must show one previously committed height h' with state, historical state, commitment tree, block/tx/certificate/event/checkpoint indexes and commit id all at h' and equal to the model, nothing of later heights visible, and must accept the next block. Enumeration of crash points per workload is exhaustive when N <= 600 operations.",
        note="Crash model is pebble's MemFS CrashClone (4 KiB block granularity, no torn sub-block writes); durability of unsynced recent heights is not claimed (commits are NoSync by design); store-level workload (FSM-level execution is covered by C03/C11).",
        tech="fault-injection enumeration over generated workloads (seeded PRNG) with a reference model oracle; crash images saved as replay files"),
    "C17": dict(
        cat="fault_enumeration",
        text="Two honest endpoints run the real handshake and encrypted connection over a harness-owned wire. Generated write/read chunkings must round-trip byte-exactly; for generated conversations EVERY data-frame position is attacked with every fault kind (bit flips in header/body/tag, drop, duplicate, swap, replay, truncation, reflection, garbage; single and double faults) and the reader must deliver exactly the plaintext in front of the fault and then fail; generated active-intermediary handshake transcripts (ephemeral-key substitution, identity claims, relayed/reflected/replayed signatures, hostile ephemeral keys, wrong network/chain) must never end with an endpoint accepting the other honest endpoint's identity on a leg whose keys the intermediary holds, and only with proof of possession for this session. Frame-fault enumeration is exhaustive per generated conversation; conversations and transcripts are sampled.",
        note="Cryptographic primitives (ChaCha20-Poly1305, X25519, HKDF, signatures) are trusted; forgeries are not attempted; ephemeral keys of honest endpoints come from crypto/rand inside NewHandshake; wall-clock deadlines are not exercised.",
        tech="fault-injection enumeration over generated conversations + " + PBT + "round-trip oracle and man-in-the-middle invariant over generated handshake transcripts"),
    "C18": dict(
        cat="exploration",
        text="Real p2p nodes joined over in-memory connections: generated sets of concurrent senders over all topics with sizes around the packet boundary must arrive as the same multiset of (topic, hash, authenticated sender) or not at all; a raw attacker peer (honest handshake, then unknown streams, non-packet payloads, garbage, oversize prefixes/packets, EOF-less interleavings, over-limit accumulation) must lose its connection with nothing partial delivered; the same concurrent scenarios run under the race detector with small payloads. Held on the explored executions.",
        note="Goroutine schedules of the real send/receive services are sampled, not controlled; data-race freedom only means 'detector silent on explored executions'; cases whose teardown the node's own log attributes to a wall-clock limit are counted inconclusive, never as violations.",
        tech=PBT + "multiset delivery oracle under generated concurrency, adversarial raw-peer traffic, go race detector on generated schedules"),
    "C19": dict(
        cat="exploration",
        text="(a) For every signed digest / identity hash a structured generator fills every field and derives single-field mutants: different encodings must give different digests unless the field is on a declared, justified outside-list, and for consensus messages a receiver differential on real BFT replicas / the real state machine decides whether an unsigned field changes what an authenticated sender made the receiver do; (b) all 53 store key builders are checked for injectivity, cross-builder collisions and prefix-range containment over hostile component tuples admitted by the callers; (c) structured mutation, an exhaustive hostile-length sweep and (thorough) native fuzzing drive the decoders and the handlers behind them (CheckBasic, CheckTx + proposer-mode ApplyBlock, certificate check, BFT.HandleMessage): no panic, no ErrPanic, unknown fields rejected where claimed, state unchanged on rejection.",
        note="Hash functions and signature schemes assumed secure (injectivity is structural); controller.HandlePeerBlock and the p2p receive loop are covered by C02/C11/C18, not here; 'meaning differs' for unsigned fields is decided by observable receiver behaviour in the harness' mock controller (which runs the real CheckProposalBasic); two open known findings (election-vote fields outside the vote signature; a relayed proposal copy with altered unbound block bytes replaces the honest one) are excluded by construction (counted in evidence) and printed as KNOWN-FINDING.",
        tech=PBT + "single-field mutation + receiver differential, key-space injectivity, structure-aware decoder fuzzing; native go fuzz targets in the thorough tier"),
    "C20": dict(
        cat="exploration",
        text="Generated order-book histories (create/edit/delete, lock/reset/close instructions incl. duplicates and conflicts, via own certificates and really signed certificate-results transactions) and generated two-chain AMM histories (limit orders, deposits, withdrawals, batch rotation, delayed/dropped certificates, reserves from 1 to near 2^64, liveness fallback) on the real state machine are checked after every block, from raw state scans in big integers: escrow pool = open orders, holding pool = pending DEX operations, points sum = total, swap output formula / reserve product / payout bounds, per-order execute-once/settle-once ledger, mirrored pool sizes, supply identity. Held on everything explored.",
        note="The two-chain glue (h/chainsim/dex.go) restates controller.HandleDex / certificate-results sending instead of running the controller; two open known findings in the liveness-fallback path are excluded by construction (counted in evidence) and printed as KNOWN-FINDING.",
        tech=PBT + "stateful history generation with a big-integer reference ledger and model-independent conservation invariants"),
    "C14": dict(
        cat="exploration",
        text="(a) From the signatures that correct replicas really produced in generated consensus runs (each correct key signs at most one payload per view - asserted) plus anything Byzantine keys sign, an adversary assembles double-sign evidence (re-paired, cross-view, partial, duplicated, unsigned-bit, expired ...) and slash lists: everyone the real evidence code implicates must, by the simulator's ground truth, have signed two payloads in that view; (b) generated chains with double-signer lists repeated across blocks/committees/protocol versions: per (validator, height) at most one stake reduction, per-block per-committee cap respected, rejected lists change nothing. Held on everything explored.",
        note="(a) trusts BLS unforgeability and uses a fixed committee per root height; (b) evidence expiry is enforced by the BFT evidence code (part a), not by the state machine.",
        tech=PBT + "adversarial evidence assembly against simulator ground truth; stateful history generation with a reference slashing model"),
    "C12": dict(
        cat="exploration",
        text="State-aware generated staking histories (stake/edit/pause/unpause/unstake, non-sign windows, double-sign slashes incl. slash-to-zero and slashes of paused/unstaking/delegate records, parameter changes, protocol versions 1 and 2, small unstaking/pause windows) on the real state machine: after every block the staked, delegated and per-committee tallies must equal big-integer sums over the validator records, unstaking/paused markers must match records one-to-one, ApplyBlock must never fail on the proposer path, and from forks of reached states empty blocks must apply until every deferred marker has fired. Held on everything explored.",
        note="Histories are bounded (10-20 blocks, <= 6 validators + pillars, evidence age <= 12 heights); look-ahead forks are taken whenever the marker/record/params fingerprint changes, not at every state.",
        tech=PBT + "stateful history generation with raw-scan bookkeeping invariants and a no-wedge look-ahead on forked chains"),
    "C13": dict(
        cat="exploration",
        text="Generated validator populations (ties at the cap, zero stakes, more validators than the cap, delegates and delegate caps, paused/unstaking mixes, total power >= 2^63) followed by generated history: for every height the committee and delegate set returned by the real state machine (LoadCommittee, TimeMachine views, copies; asked repeatedly, in shuffled order, through views taken before later commits, over > 64 heights so the shared cache rolls over) must equal a reference derived from a raw scan of the state as of that height (filter, stake-descending/address-descending sort, cap, power = stake, threshold floor(2T/3)+1 in big integers), every re-ask must equal the first answer, and a twin chain must agree. Held on everything explored.",
        note="The tie-break asserted is the one the code documents (address descending); MaxCommitteeSize = 0 is rejected by Params.Check so 'cap 0 = unlimited' is exercised for delegates only.",
        tech=PBT + "reference-model differential per historical height + repeat-query immutability invariant"),
    "C04": dict(
        cat="exploration",
        text="Generated histories mixing all expressible message types, certificate results (rewards, non-signers, double-signers, order lock/close/reset), really signed certificate-results transactions of a second committee, governance changes, halvenings, faucet and amounts from 0 to 2^64-1: after every block, from a raw scan in big integers, total supply = accounts + pools + stakes, no amount exceeds the total, and the block-to-block change of the total equals scheduled mint + approved DAO mints + faucet top-ups - slash burns - undistributed reward remainder. Held on everything explored.",
        note="The mint/burn accounting is re-derived by the harness from params, events and records (trusted model); no vesting sends and no DEX batches inside certificate results (those are C20's); retired committees only through certificate results of the second committee.",
        tech=PBT + "stateful history generation with a big-integer conservation invariant and an independently re-derived mint/burn ledger"),
    "C01": dict(
        cat="exploration",
        text="N in 4..7 real bft.BFT replicas (real BLS votes) run one height under a generated adversarial schedule: scenario families F1-F7 (lossy/reordering network, equivocating Byzantine leader with double votes, withheld +2/3 certificate re-proposed later as highQC with and without a root-height bump, partial COMMIT delivery, replay of any earlier message/certificate re-signed by Byzantine keys, threshold-boundary stake distributions), Byzantine power strictly < 1/3. After every step: all commits of correct replicas at the height agree, the committed block was proposed, the committing certificate recounts to >= floor(2T/3)+1 in big integers with only true signers, and no correct replica signs two payloads in one view. Held on everything explored.",
        note="Bounded: n <= 7, one height per case, <= 8 rounds per root height, <= 2 root bumps; committee-changing updates are excluded by the property; the mock controller accepts any well-formed proposal and mirrors the certificate gate of HandlePeerBlock.",
        tech=PBT + "generated adversarial schedules / Byzantine scenario families against safety invariants over the recorded history"),
    "C15": dict(
        cat="exploration",
        text="Bounded liveness on a harness-owned clock: any generated C01-style adversarial prefix (plus conflicting locks and partitions) is cut at a generated point (GST); afterwards correct replicas (> 2/3) fire at now + WaitTime(phase, round), messages between correct replicas arrive within a generated delta below the smallest phase timeout, Byzantine validators (< 1/3) are silent, equivocate or inflate pacemaker rounds. Every correct replica must commit within r_sync + B + 1 rounds after GST (B = suffix rounds whose predicted leader is Byzantine; r_sync calibrated once over > 20 000 cases and frozen at 2) - plus a stated allowance when replicas are spread over rounds at GST. Held on everything explored.",
        note="Decides the bounded form only: not 'eventually' on real timers; timeouts restricted to a ratio <= 2 (the code re-aligns replicas in time only through wait-time growth); two open known findings (locked proposal loses its evidence; HighQc reported with a forged build height) are excluded by construction and printed as KNOWN-FINDING.",
        tech=PBT + "adversarial prefix + virtual-time discrete-event suffix with a calibrated round bound"),
    "C02": dict(
        cat="exploration",
        text="From valid (block, certificate) pairs produced by real signing on real controller nodes the generator derives attacker candidates (signer subsets at threshold and threshold-1 under weighted stakes, unsigned/padding bitmap bits, wrong bitmap length, aggregates over re-targeted payloads for every header field singly and in pairs, PROPOSE_VOTE certificate presented as commit certificate, certificate attached to another block/height, swapped results, certificate of another committee, garbled signatures, omitted block/results, tampered last certificate in the next block). HandlePeerBlock on a second node must commit iff an independent semantic evaluator (who really signed which fields, big-integer power recount at the certificate's root height) says so; on rejection committed and working state are unchanged and the valid pair is still accepted. Held on everything explored.",
        note="Fast-sync (checkpoint-only verification) is excluded by the property; BFT/listeners are replaced by direct calls in production order (trusted harness wiring, listed in evidence assumptions).",
        tech=PBT + "adversarial candidate derivation from honestly signed certificates against an independent acceptance oracle"),
    "C03": dict(
        cat="exploration",
        text="Generated 3-12 block histories (failing transactions on the proposer path, >= 16 state writes per block, certificate results with non-signers; a third on the nested chain of a two-chain setup) are executed on independent real controller nodes along the paths propose / validate / commit-with-cached-result / commit-replay / sync-replay / restart, with generated differences in irrelevant state (block cache warm or purged, signature cache cold or warm, discarded speculative validations, GOMAXPROCS 1/4/16): headers must be byte-identical, certificate results equal, the certificate each node indexed byte-identical to the certified one, and the state root equal to the reference commitment of a full state scan. A second differential demands identical verdicts of single, cached and batch signature verification for generated hostile (key, message, signature) triples. Held on everything explored.",
        note="Goroutine schedules of the parallel tree commit and indexer are sampled (repetition, GOMAXPROCS), not enumerated; block time comes from canopy's wall clock, so comparisons are between nodes within one run.",
        tech=PBT + "multi-path differential execution on independent nodes + reference state commitment; signature-path differential"),
    "C11": dict(
        cat="exploration",
        text="Three real controller nodes: A's mempool receives a generated mix (valid, stateful-failing, conflicting, oversize relative to a lowered block size, unusually encoded, hostile values); every proposal A builds must validate on B (and A must be able to build one); both commit through HandlePeerBlock with a really signed certificate; after k heights a fresh node is fed A's archived block+certificate for every height (also after A restarted, after RPC-style header lookups on cold heights, with nodes holding different certificate versions) and must reach the same block hashes and state roots; served bytes must equal the certified bytes. Held on everything explored.",
        note="finishSyncing, listeners and the Sync loop are not driven (direct calls in production order); checkpoint height 100 is crossed in one chain of five (97-height snapshot), later checkpoints are not reached.",
        tech=PBT + "generated mempool contents, proposer/replica/fresh-sync differential on real controller nodes"),
    "C07": dict(
        cat="exploration",
        text="(a) transaction level: generated blocks with transactions engineered to fail late (after fee deduction / partial transfers), back-to-back failures, failures next to valid transactions on the same account/pool/params: proposer-mode ApplyBlock must never fail as a whole, included and failed lists partition the input in order, and a fork executing exactly the included transactions in replica mode must give the same header hash, state scan, results and events; (b) block level: a real controller node is offered generated bad proposals / peer blocks / sync blocks (wrong header fields, wrong results, failing transaction inside, bad last certificate, bad certificate) interleaved with good ones while a twin sees only the good ones: after every rejection committed version, state, working state and indexes equal the twin's and both stay in lock-step. Held on everything explored.",
        note="Events / slash-tracker restore paths are observable only through certificate-results transactions of a nested chain that fail late (generated by TestC07aAtomicity / TestC07aSlashTracker) and blocks rejected inside BeginBlock (TestC07aRejectedBeginBlock); same-block byte-identical duplicates are excluded (the mempool de-duplicates by hash).",
        tech=PBT + "metamorphic relation (block with vs. without its failing transactions) + twin-node differential under generated rejections"),
    "C05": dict(
        cat="exploration",
        text="For a generated world (custodial and non-custodial validators and delegates with outputs held by every key type, orders, multisig accounts) each round submits at most one authorized transaction and 2-7 forbidden ones: wrong signers in 9 roles (incl. address-prefix look-alikes), 19 single-field tamperings after signing, multisig attacks (below threshold, duplicate member, padding), relabelled RLP wrappers, signature-cache aliases, same-block revocations. Oracle = an independent authorization table written from the message documentation + signature validity by construction: forbidden transactions must fail and leave the state equal to a twin's, executed ones may only touch ownership-bearing keys of their signer or target; every candidate is also offered to CheckTx on the single-verification path, with cold and warm signature cache. Held on everything explored.",
        note="Certificate-results transactions are covered by C19/C20/C14, not generated here; the authorization table is the harness' reading of fsm/message.md and validator.md (trusted).",
        tech=PBT + "independent authorization-table oracle + twin-state differential over generated (signer, owner, tampering) combinations"),
    "C06": dict(
        cat="exploration",
        text="Each case includes one valid transaction T (10 message types x 7 signer kinds incl. multisig and both RLP forms, several chain/network ids) and then offers variants derivable without any key: identical copy, protobuf re-encodings (explicit defaults, reordering, non-minimal varints/tags/lengths, duplicated/shadowed/split fields, nested re-encodings), alternative public-key encodings, malleated signatures, tampered RLP wrappers - in T's own block, in later blocks, around both edges of the creation-height window (beyond height 4320), and on chains with another chain or network id; plus generated window-edge and RLP.V2 nonce-floor histories. Oracle = ledger model: the signed content takes effect exactly once; every variant is reported failed and the state equals a twin fork that never saw the variants. Held on everything explored.",
        note="Heights above 4320 are reached by fast-forwarding the store with synthetic empty versions (no per-block minting there); at block height 1 neither window nor hash lookup is enforced by the code (stated rule).",
        tech=PBT + "metamorphic re-encoding / malleation of included transactions against a once-only ledger model and a twin chain"),
}

REASONS = {}  # property id -> reason when not claimed (default below)


def main():
    checks, na = [], []
    for p in props:
        pid = p["id"]
        has = os.path.exists(os.path.join(ROOT, "props", pid.lower(), "check.json"))
        if pid in CLAIMED and has:
            c = CLAIMED[pid]
            cfg = json.load(open(os.path.join(ROOT, "props", pid.lower(), "check.json")))
            assert cfg.get("level", "exploration") == c["cat"], (pid, cfg.get("level"), c["cat"])
            checks.append({
                "property_id": pid,
                "quick_cmd": "./check %s quick" % pid,
                "thorough_cmd": "./check %s thorough" % pid,
                "evidence_file": "/verif/evidence/%s.json" % pid,
                "replay_cmd_template": "./check %s --replay {path}" % pid,
                "engine": "rapid-harness",
                "level_claimed": {"category": c["cat"], "text": c["text"], "design_ref": "DESIGN.md section 3, %s" % pid},
                "level_note": c["note"],
                "technique": c["tech"],
            })
        else:
            na.append({"property_id": pid, "reason": REASONS.get(pid, "check still under construction in this session (plan: DESIGN.md section 3); not claimed yet")})
    hooks = subprocess.run(["git", "-C", "/repo", "log", "--format=%h %s"], stdout=subprocess.PIPE, text=True).stdout.splitlines()
    hook_commits = [l.split()[0] for l in hooks if "verif hooks" in l]
    m = {
        "version": 1,
        "setup_cmd": "./setup.sh",
        "hooks": {
            "guard": "verif",
            "enable": "go test -tags verif (Go build tag; hook files are /repo/<pkg>/verif_hooks*.go, each starting with //go:build verif)",
            "baseline_off_cmd": "/verif/tools/baseline.sh /repo",
            "source_commits": hook_commits,
            "add_only": True,
        },
        "engines": [{
            "name": "rapid-harness", "path": "/verif/check", "serves_properties": [c["property_id"] for c in checks],
            "kind_free_text": "pgregory.net/rapid v1.3.0 property tests (stateful generation + shrinking), seeded enumerations and native go fuzz targets against the real packages of /repo (imported through a replace directive), driven, sharded and merged into evidence by ./check",
        }],
        "checks": checks,
        "not_applicable": na,
        "notes": "See DESIGN.md. known_findings.json lists the genuine defects found (status fixed = repaired by a 'fix:' commit in /repo; open = printed as KNOWN-FINDING).",
    }
    json.dump(m, open(os.path.join(ROOT, "MANIFEST.json"), "w"), indent=1)
    print("claimed:", [c["property_id"] for c in checks])


if __name__ == "__main__":
    main()
