#!/usr/bin/env python3
"""Confirms seeded breaking changes and runs the checks against them.

usage: tools/seedcheck.py <PROP> <seed-out-dir> [--pkg <repo-pkg-dir-of-demo>] [--tier quick|thorough|both] [--only n,n] [--race 1]
 <seed-out-dir>/<n>/{patch.diff,demo_test.go,notes.md}   (written by an independent sub-agent that never saw /verif)

For every n:
  1. scratch worktree of /repo HEAD; `git apply patch.diff`; `go build ./...` (minus cmd/rpc which has no web dist)
  2. the EXISTING test suite of the touched + dependent packages passes with the patch (guard off)
  3. the demonstration FAILS with the patch and PASSES without it
  4. `VERIF_REPO=<wt> ./check <PROP> <tier>`: VIOLATION expected
  5. everything is copied to /verif/seeded/<PROP>-<n>/ with meta.json; the worktree is removed
"""
import json, os, re, shutil, subprocess, sys, time

ROOT = os.path.dirname(os.path.dirname(os.path.abspath(__file__)))
SUITE = ["./store/", "./fsm/", "./lib/...", "./controller/", "./bft/", "./p2p/"]


def sh(cmd, cwd=None, env=None, timeout=3600):
    e = dict(os.environ)
    e.pop("GOFLAGS", None)
    e.pop("GOSUMDB", None)
    e.pop("GOTOOLCHAIN", None)
    e["GOPROXY"] = "off"
    e.update(env or {})
    r = subprocess.run(cmd, cwd=cwd, env=e, shell=isinstance(cmd, str), stdout=subprocess.PIPE, stderr=subprocess.STDOUT, text=True, timeout=timeout)
    return r.returncode, r.stdout


def main():
    prop, src = sys.argv[1].upper(), sys.argv[2]
    pkg, tier, only, race = None, "quick", None, []
    a = sys.argv[3:]
    while a:
        if a[0] == "--pkg":
            pkg = a[1]
        elif a[0] == "--tier":
            tier = a[1]
        elif a[0] == "--only":
            only = set(a[1].split(","))
        elif a[0] == "--race":  # the demonstration needs the race detector (a[1] is ignored: pass `--race 1`)
            race = ["-race"]
        a = a[2:]
    for n in sorted(os.listdir(src)):
        d = os.path.join(src, n)
        if not os.path.isfile(os.path.join(d, "patch.diff")) or (only and n not in only):
            continue
        meta = {"property": prop, "seed": n, "source": "independent sub-agent given only the property text and a scratch worktree", "ran_at": time.strftime("%Y-%m-%d %H:%M:%S")}
        wt = "/tmp/wt-seed-%s-%s" % (prop.lower(), n)
        sh("git -C /repo worktree remove --force %s" % wt)
        rc, out = sh("git -C /repo worktree add -q --detach %s HEAD" % wt)
        assert rc == 0, out
        try:
            meta["repo_head"] = sh("git -C /repo log --format=%h -1")[1].strip()
            rc, out = sh(["git", "apply", os.path.join(d, "patch.diff")], cwd=wt)
            meta["patch_applies"] = rc == 0
            if rc != 0:
                meta["error"] = out[-500:]
                raise RuntimeError("patch does not apply")
            meta["files_touched"] = sh("git diff --stat", cwd=wt)[1].strip().splitlines()[:-1]
            rc, out = sh("go build ./store/... ./fsm/... ./lib/... ./controller/... ./bft/... ./p2p/... ./cmd/signer/...", cwd=wt)
            meta["compiles"] = rc == 0
            if rc != 0:
                meta["error"] = out[-800:]
                raise RuntimeError("does not compile")
            # existing suite with the patch: the touched packages and everything that imports them
            touched = set(l.split("|")[0].strip().split("/")[0] for l in meta["files_touched"])
            deps = {"store": ["./store/", "./fsm/", "./controller/"], "fsm": ["./fsm/", "./controller/"], "bft": ["./bft/", "./controller/"],
                    "p2p": ["./p2p/", "./controller/"], "controller": ["./controller/"], "lib": SUITE, "cmd": ["./cmd/signer/"]}
            suite = sorted(set(x for t in touched for x in deps.get(t, SUITE)))
            meta["suite_packages"] = suite
            failed = suite
            for attempt in range(3):  # some p2p/bft tests of the repository are timing sensitive on a loaded machine: retry the failing packages
                still = []
                for pk in failed:
                    rc, out = sh(["go", "test", "-count=1", "-vet=off", pk], cwd=wt)
                    if rc != 0:
                        still.append(pk)
                        meta["suite_tail"] = "\n".join(l for l in out.splitlines() if re.match(r"^(--- FAIL|FAIL|ok|panic)", l))[-800:]
                failed = still
                if not failed:
                    break
                meta["suite_retry"] = attempt + 1
            meta["existing_suite_passes_with_patch"] = not failed
            # demonstration
            demo = os.path.join(d, "demo_test.go")
            dpkg = pkg
            if dpkg is None:
                m = re.search(r"^package (\w+)", open(demo).read(), re.M)
                dpkg = {"store": "store", "fsm": "fsm", "bft": "bft", "p2p": "p2p", "lib": "lib", "controller": "controller", "crypto": "lib/crypto"}.get(m.group(1), m.group(1))
            tests = re.findall(r"^func (Test\w+)\(", open(demo).read(), re.M)
            dst = os.path.join(wt, dpkg, "zz_seed_demo_test.go")
            shutil.copy(demo, dst)
            runre = "^(" + "|".join(tests) + ")$"
            rc1, out1 = sh(["go", "test", "-count=1", "-vet=off"] + race + ["-run", runre, "./" + dpkg + "/"], cwd=wt)
            meta["demo_fails_with_patch"] = rc1 != 0 and "FAIL" in out1
            os.remove(dst)
            sh(["git", "apply", "-R", os.path.join(d, "patch.diff")], cwd=wt)
            shutil.copy(demo, dst)
            rc2, out2 = sh(["go", "test", "-count=1", "-vet=off"] + race + ["-run", runre, "./" + dpkg + "/"], cwd=wt)
            meta["demo_passes_without_patch"] = rc2 == 0
            os.remove(dst)
            sh(["git", "apply", os.path.join(d, "patch.diff")], cwd=wt)
            meta["demo_tests"] = tests
            confirmed = all(meta.get(k) for k in ("compiles", "existing_suite_passes_with_patch", "demo_fails_with_patch", "demo_passes_without_patch"))
            meta["confirmed"] = confirmed
            # our checks
            runs = []
            for t in ([tier] if tier != "both" else ["quick", "thorough"]):
                t0 = time.time()
                rc, out = sh([os.path.join(ROOT, "check"), prop, t], cwd=ROOT, env={"VERIF_REPO": wt, "VERIF_SEED": os.environ.get("VERIF_SEED", "1")}, timeout=7200)
                viol = [l for l in out.splitlines() if l.startswith("VIOLATION")]
                runs.append({"tier": t, "exit": rc, "violation_lines": viol[:4], "wall_s": round(time.time() - t0), "summary": [l for l in out.splitlines() if "evaluations=" in l][:1]})
                if viol:
                    # which test caught it
                    meta["caught_by"] = sorted(set(os.path.basename(v.split("replay=")[1]).split("-seed")[0].rsplit("-", 1)[0] for v in viol))
                    break
            meta["check_runs"] = runs
            meta["caught"] = any(r["violation_lines"] for r in runs)
        except RuntimeError as e:
            meta["confirmed"] = False
            meta["caught"] = None
        finally:
            sh("git -C /repo worktree remove --force %s" % wt)
        out_dir = os.path.join(ROOT, "seeded", "%s-%s" % (prop, n))
        os.makedirs(out_dir, exist_ok=True)
        for f in ("patch.diff", "demo_test.go", "notes.md"):
            if os.path.exists(os.path.join(d, f)):
                shutil.copy(os.path.join(d, f), os.path.join(out_dir, f))
        nt = os.path.join(d, "notes.md")
        meta["needs_to_manifest"] = ""
        if os.path.exists(nt):
            txt = open(nt).read()
            m = re.search(r"(?is)(trigger|needed|needs)[^\n]*\n(.{0,600})", txt)
            meta["needs_to_manifest"] = (m.group(0) if m else txt[:600]).strip()[:700]
        json.dump(meta, open(os.path.join(out_dir, "meta.json"), "w"), indent=1)
        print("%s-%s confirmed=%s caught=%s %s" % (prop, n, meta.get("confirmed"), meta.get("caught"), meta.get("caught_by", meta.get("error", ""))))


if __name__ == "__main__":
    main()
