#!/usr/bin/env python3
"""Sensitivity mutations for C12 / C13 / C04 (BUILD_NOTES rule 4).
usage: tools/stkmut.py <mutation> <ID> [seed]     e.g. tools/stkmut.py unpause-keeps-key C12
Creates the scratch worktree /tmp/wt-stk-<mutation> of /repo HEAD, applies the mutation, runs `./check <ID> quick`
against it (VERIF_REPO) and removes the worktree. Prints the verdict lines."""
import os, re, subprocess, sys

def sub(path, old, new, count=1):
    s = open(path).read()
    if old not in s:
        raise SystemExit("mutation does not apply: %r not in %s" % (old[:60], path))
    open(path, "w").write(s.replace(old, new, count))

def rx(path, pat, new):
    s = open(path).read()
    s2, n = re.subn(pat, new, s, count=1, flags=re.S)
    if n != 1:
        raise SystemExit("mutation does not apply: /%s/ in %s" % (pat[:60], path))
    open(path, "w").write(s2)

MUT = {
    # ---- C12
    "revert-70e9813": lambda wt: subprocess.check_call(["git", "-C", wt, "revert", "--no-commit", "70e9813"]),
    "revert-c4ed83a": lambda wt: subprocess.check_call(["git", "-C", wt, "revert", "--no-commit", "c4ed83a"]),
    "revert-975a6e9": lambda wt: subprocess.check_call(["git", "-C", wt, "revert", "--no-commit", "975a6e9"]),
    "revert-bd64f96": lambda wt: subprocess.check_call(["git", "-C", wt, "revert", "--no-commit", "bd64f96"]),
    "revert-dbde83c": lambda wt: subprocess.check_call(["git", "-C", wt, "revert", "--no-commit", "dbde83c"]),
    "unpause-keeps-key": lambda wt: rx(wt + "/fsm/validator.go",
        r"if err := s\.Delete\(KeyForPaused\(validator\.MaxPausedHeight, address\)\); err != nil \{\s*return err\s*\}", "_ = KeyForPaused"),
    "updatecommittees-no-sub": lambda wt: sub(wt + "/fsm/committee.go",
        "if err := s.DeleteCommittees(address, oldValidator.StakedAmount, oldValidator.Committees); err != nil {\n\t\treturn err\n\t}",
        "for _, c := range oldValidator.Committees {\n\t\tif err := s.DeleteCommitteeMember(address, c, oldValidator.StakedAmount); err != nil {\n\t\t\treturn err\n\t\t}\n\t}"),
    "deletevalidator-skip-delegate-supply": lambda wt: rx(wt + "/fsm/validator.go",
        r"if err := s\.SubFromDelegateSupply\(validator\.StakedAmount\); err != nil \{\s*return err\s*\}", "_ = validator"),
    "forceunstake-errors-on-missing": lambda wt: sub(wt + "/fsm/byzantine.go",
        "s.log.Warnf(\"validator %s is not found to be force unstaked\", address.String()) // defensive\n\t\treturn nil",
        "return err"),
    # second-wave seeded changes (hand-recreated)
    "retire-own-chain": lambda wt: sub(wt + "/fsm/automatic.go", "if qc.Results.Retired && qc.Header.ChainId != s.Config.ChainId {", "if qc.Results.Retired {"),
    "send-stale-recipient": lambda wt: sub(wt + "/fsm/message.go",
        "\t// subtract from sender\n\tif err := s.AccountSub(crypto.NewAddressFromBytes(msg.FromAddress), msg.Amount); err != nil {\n\t\treturn err\n\t}\n\t// if special vesting send",
        "\t// pre-check the recipient for overflow\n\tto, err := s.GetAccount(crypto.NewAddressFromBytes(msg.ToAddress))\n\tif err != nil {\n\t\treturn err\n\t}\n\tif to.Amount > math.MaxUint64-msg.Amount {\n\t\treturn ErrInvalidAmount()\n\t}\n\t// subtract from sender\n\tif err := s.AccountSub(crypto.NewAddressFromBytes(msg.FromAddress), msg.Amount); err != nil {\n\t\treturn err\n\t}\n\tif msg.VestingStartHeight == 0 && msg.VestingEndHeight == 0 {\n\t\tif msg.Amount == 0 {\n\t\t\treturn nil\n\t\t}\n\t\tto.Amount += msg.Amount\n\t\treturn s.SetAccount(to)\n\t}\n\t// if special vesting send")
        or sub(wt + "/fsm/message.go", "import (\n\t\"bytes\"\n", "import (\n\t\"bytes\"\n\t\"math\"\n"),
    # ---- C13
    "sort-tiebreak-asc": lambda wt: sub(wt + "/fsm/validator.go", "return bytes.Compare(b.Address, a.Address)", "return bytes.Compare(a.Address, b.Address)"),
    "sort-no-tiebreak": lambda wt: sub(wt + "/fsm/validator.go", "return bytes.Compare(b.Address, a.Address)", "return 0"),
    "include-paused": lambda wt: sub(wt + "/fsm/validator.go", "Paused:    lib.FilterOption_Exclude,", "Paused:    lib.FilterOption_Off,"),
    "maj23-no-plus1": lambda wt: rx(wt + "/lib/consensus.go", r"(minPowerFor23Maj := [^\n]*) \+ 1\n", r"\1\n"),
    "cache-without-height": lambda wt: sub(wt + "/fsm/state.go", "if validators, ok := s.cache.sharedCache.sets[height]; ok {",
        "if validators, ok := s.cache.sharedCache.sets[s.cache.sharedCache.newest()]; ok {") or open(wt + "/fsm/state.go", "a").write(
        "\nfunc (c *validatorSharedCache) newest() uint64 {\n\tif len(c.heights) == 0 {\n\t\treturn 0\n\t}\n\treturn c.heights[len(c.heights)-1]\n}\n"),
    "cap-before-sort": lambda wt: rx(wt + "/fsm/validator.go",
        r"slices\.SortFunc\(filtered, func\(a, b \*Validator\) int \{",
        "if maxPerCommittee > 0 && uint64(len(filtered)) > maxPerCommittee {\n\t\tfiltered = filtered[:maxPerCommittee]\n\t}\n\tslices.SortFunc(filtered, func(a, b *Validator) int {"),
    # ---- C04
    "slash-no-burn": lambda wt: rx(wt + "/fsm/byzantine.go",
        r"// subtract from total supply\s*if err = s\.SubFromTotalSupply\(slashAmount\); err != nil \{\s*return err\s*\}", "// (mutated)"),
    "mint-without-supply": lambda wt: rx(wt + "/fsm/account.go",
        r"func \(s \*StateMachine\) MintToPool\(id uint64, amount uint64\) lib\.ErrorI \{.*?return s\.PoolAdd\(id, amount\)",
        "func (s *StateMachine) MintToPool(id uint64, amount uint64) lib.ErrorI {\n\treturn s.PoolAdd(id, amount)"),
    "accountadd-no-guard": lambda wt: rx(wt + "/fsm/account.go",
        r"// ensure add operation is safe from uint64 overflow\s*if account\.Amount > math\.MaxUint64-amountToAdd \{\s*return ErrInvalidAmount\(\)\s*\}", "// (mutated)"),
    "penalty-not-burned": lambda wt: sub(wt + "/fsm/committee.go",
        "return earlyWithdrawalReward, s.AccountAdd(address, earlyWithdrawalReward)", "return fullReward, s.AccountAdd(address, earlyWithdrawalReward)"),
    "delete-order-double-refund": lambda wt: sub(wt + "/fsm/message.go",
        "\terr = s.DeleteOrder(msg.OrderId, msg.ChainId)\n\treturn",
        "\tif err = s.AccountAdd(crypto.NewAddress(order.SellersSendAddress), order.AmountForSale); err != nil {\n\t\treturn\n\t}\n\terr = s.DeleteOrder(msg.OrderId, msg.ChainId)\n\treturn"),
}

def main():
    name, pid = sys.argv[1], sys.argv[2]
    seed = sys.argv[3] if len(sys.argv) > 3 else "1"
    wt = "/tmp/wt-stk-" + name
    subprocess.call(["git", "-C", "/repo", "worktree", "remove", "--force", wt], stdout=subprocess.DEVNULL, stderr=subprocess.DEVNULL)
    subprocess.check_call(["git", "-C", "/repo", "worktree", "add", "-q", "--detach", wt, "HEAD"])
    try:
        MUT[name](wt)
        print(subprocess.run(["git", "-C", wt, "diff", "HEAD", "--stat"], capture_output=True, text=True).stdout.strip().splitlines()[-1])
        env = dict(os.environ, VERIF_REPO=wt, VERIF_SEED=seed)
        r = subprocess.run(["/verif/check", pid, "quick"], env=env, capture_output=True, text=True)
        out = r.stdout.splitlines()
        why = [l.strip() for l in out if re.search(r"(c\d\d|reg)_test.go:\d+: ", l) and "[rapid]" not in l]
        verdict = [l for l in out if re.search(r"KNOWN|INCONCLUSIVE|BUILD|evaluations=", l)]
        nviol = len([l for l in out if l.startswith("VIOLATION")])
        print("[%s -> %s] exit=%d violations=%d" % (name, pid, r.returncode, nviol))
        print("\n".join(verdict[:3] + why[:3]))
    finally:
        subprocess.call(["git", "-C", "/repo", "worktree", "remove", "--force", wt])

if __name__ == "__main__":
    main()
