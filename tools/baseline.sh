#!/bin/bash
# Runs the repository's test suite with the verif guard OFF (no -tags verif) and compares with BASELINE.json stable_pass.
# usage: tools/baseline.sh [repo-dir]   -> exit 0 iff every stable_pass test passed
REPO=${1:-/repo}
OUT=${BASELINE_OUT:-/var/tmp/verif-baseline.json}
cd $REPO || exit 2
export BASELINE_REPO=$REPO
unset GOSUMDB GOTOOLCHAIN
export GOPROXY=off
( for m in . ./plugin/go ./plugin/go/tutorial; do ( cd $REPO/$m && go test -mod=mod -json -vet=off -count=1 -timeout 25m ./... ); done ) > $OUT 2>/dev/null
python3 - "$OUT" <<'PY'
import json,sys
want=set(json.load(open('/root/.vp/BASELINE.json'))['stable_pass'])
res={}
for l in open(sys.argv[1],errors='replace'):
    try: e=json.loads(l)
    except Exception: continue
    if e.get('Test') and e.get('Action') in('pass','fail','skip'):
        res[e['Package']+'::'+e['Test']]=e['Action']
bad=[t for t in sorted(want) if res.get(t)!='pass']
# a handful of p2p/bft tests of the repository are wall-clock sensitive (1 s handshake timeout): re-run the packages of
# the non-passing tests once before reporting, so that a loaded machine does not look like a regression
if bad and len(bad) <= 10:
    import subprocess, os
    for pkg in sorted(set(t.split('::')[0] for t in bad)):
        rel = './' + pkg.split('github.com/canopy-network/canopy/')[-1]
        out = subprocess.run(['go','test','-mod=mod','-json','-vet=off','-count=1',rel], cwd=os.environ.get('BASELINE_REPO','/repo'), stdout=subprocess.PIPE, text=True).stdout
        for l in out.splitlines():
            try: e=json.loads(l)
            except Exception: continue
            if e.get('Test') and e.get('Action') in('pass','fail','skip'):
                res[e['Package']+'::'+e['Test']]=e['Action']
    bad=[t for t in sorted(want) if res.get(t)!='pass']
print('stable_pass=%d passed=%d not-passing=%d'%(len(want),len(want)-len(bad),len(bad)))
for t in bad[:40]: print('  ',t,res.get(t))
sys.exit(1 if bad else 0)
PY
