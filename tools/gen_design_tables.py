#!/usr/bin/env python3
"""Rewrites the generated tables of DESIGN.md (between BEGIN/END markers) from known_findings.json and seeded/*/meta.json."""
import json, os, re, glob
ROOT = os.path.dirname(os.path.dirname(os.path.abspath(__file__)))


def findings_table():
    k = json.load(open(os.path.join(ROOT, "known_findings.json")))["findings"]
    out = ["| id | property | status | fix commit | regression test | what |", "|---|---|---|---|---|---|"]
    for f in sorted(k, key=lambda f: (f["property"], f["id"])):
        what = re.sub(r"^fixed: property=\S+ \S+ ", "", f["what"]).replace("|", "/")
        out.append("| %s | %s | %s | %s | %s | %s |" % (f["id"], f["property"], f["status"], f.get("commit", "-"), f.get("test", "-"), what))
    return "\n".join(out)


def seeded_table():
    rows = ["| seed | property | confirmed (suite green, demo fails with / passes without) | caught by (tier) | needs to manifest |", "|---|---|---|---|---|"]
    for mpath in sorted(glob.glob(os.path.join(ROOT, "seeded", "*", "meta.json"))):
        m = json.load(open(mpath))
        name = os.path.basename(os.path.dirname(mpath))
        caught = "-"
        if m.get("caught"):
            tier = next((r["tier"] for r in m.get("check_runs", []) if r.get("violation_lines")), "?")
            caught = "%s (%s)" % (", ".join(m.get("caught_by", [])), tier)
        elif m.get("caught") is False:
            caught = "NOT caught (%s)" % ", ".join(r["tier"] for r in m.get("check_runs", []))
        note = m.get("summary") or m.get("needs_to_manifest", "")
        note = re.sub(r"\s+", " ", note).replace("|", "/")[:260]
        rows.append("| %s | %s | %s | %s | %s |" % (name, m["property"], "yes" if m.get("confirmed") else "no: " + str(m.get("error", m.get("suite_tail", "")))[:80].replace("\n", " ").replace("|", "/"), caught, note))
    return "\n".join(rows)


def main():
    p = os.path.join(ROOT, "DESIGN.md")
    s = open(p).read()
    for name, fn in (("findings", findings_table), ("seeded", seeded_table)):
        b, e = "<!-- BEGIN:%s -->" % name, "<!-- END:%s -->" % name
        if b in s and e in s:
            s = s[:s.index(b) + len(b)] + "\n" + fn() + "\n" + s[s.index(e):]
    open(p, "w").write(s)


if __name__ == "__main__":
    main()
