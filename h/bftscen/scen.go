// Package bftscen generates adversarial consensus scenarios on top of bftsim: a committee (sizes, stakes,
// Byzantine subset, boundary distributions), and a script of round segments drawn from the scenario families
// F1..F6 of DESIGN C01, each randomised and mixed with network noise. The same generator feeds C01 (whole
// scenario, safety oracle), C15 (scenario cut at a generated point = GST) and C14a (the pool of signatures).
//
// All randomness comes from rapid draws; per-message decisions use a PCG stream seeded from a rapid draw so
// that a run is a function of the drawn values only.
package bftscen

import (
	"encoding/json"
	"fmt"
	"math/rand/v2"
	"os"
	"path/filepath"
	"sort"
	"strings"
	"sync"

	"github.com/canopy-network/canopy/lib"
	"pgregory.net/rapid"

	bs "verif/h/bftsim"
	"verif/h/ev"
)

// ids of open findings whose input class the generators leave out (ev.Open) so that the search continues behind them
const (
	KFPacemaker   = "KF-C15-pacemaker-threshold"
	KFWrongPhase  = "KF-C15-wrong-phase-commit-wedge"
	KFStaleElect  = "KF-C15-stale-election-cert"
	KFHighQcBlock = "KF-C15-highqc-without-block"
	KFElectPrecom = "KF-C15-election-cert-in-precommit"
	KFStripBlock  = "KF-C15-evidence-strips-commit-block"
	KFLockNoEvid  = "KF-C15-lock-loses-evidence"
	KFBuildHeight = "KF-C15-highqc-forged-build-height"
)

var (
	kfOnce sync.Once
	kfOpen = map[string]bool{}
)

// findingOpen: open for the property under check (ev.Open) or open at all ($VERIF_ROOT/known_findings.json) - a liveness
// defect that is open for C15 also stalls the scenarios of C01 and C14, which share this generator.
func findingOpen(id string) bool {
	if ev.Open(id) {
		return true
	}
	kfOnce.Do(func() {
		root := os.Getenv("VERIF_ROOT")
		if root == "" {
			root = "/verif"
		}
		bz, err := os.ReadFile(filepath.Join(root, "known_findings.json"))
		if err != nil {
			return
		}
		var doc struct {
			Findings []struct{ Id, Status string } `json:"findings"`
		}
		if json.Unmarshal(bz, &doc) == nil {
			for _, f := range doc.Findings {
				kfOpen[f.Id] = f.Status == "open"
			}
		}
	})
	return kfOpen[id]
}

// PacemakerVulnerable reports whether the Byzantine validators alone reach the pacemaker threshold of bft.Pacemaker().
func PacemakerVulnerable(s *bs.Sim) bool {
	var f uint64
	for _, b := range s.Byzantine() {
		f += s.Cfg.Power[b]
	}
	return f > 0 && f >= lib.Uint64ReducePercentage(s.VS.MinimumMaj23, 50)
}

// Options tune a scenario.
type Options struct {
	AllowDupReset  bool   // include the labelled "same root height repeated reset" action (C01 only)
	MaxSegments    int    // upper bound on round segments (0 = 12)
	CutSteps       int    // stop the scenario once this many simulator steps were taken (0 = never) - C15's GST
	Families       string // restrict to families, e.g. "F3" (sensitivity experiments); "" = all
	NoFinish       bool   // do not append the closing clean rounds
	Scatter        bool   // end the script by letting the correct replicas time out alone for pairwise different numbers of rounds (gaps of several rounds)
	family         string // drawn by Run before the committee
	ExtraPartition bool   // with probability 1/2 end the script with a partition segment (C15: replicas spread over rounds at GST)
}

// Result is a finished (or cut) scenario.
type Result struct {
	S        *bs.Sim
	Family   string
	Script   []string // high-level script actually played
	Classes  []string
	DupReset bool
	Mode     string // committee mode
	G1, G2   []int  // boundary groups of correct validators (boundary mode)
	Cut      bool
	Excluded map[string]int // inputs left out because of an open known finding (id -> count)
}

// Header is the readable head of the case descriptor.
func (r *Result) Header() string {
	s := r.S
	var b strings.Builder
	prior := ""
	if s.Cfg.PriorEvidence {
		prior = " prior-double-sign-evidence"
	}
	fmt.Fprintf(&b, "n=%d power=%v byz=%v mode=%s root=%d h=%d seed=%d%s fam=%s script=[%s]", s.N, s.Cfg.Power, s.Byzantine(), r.Mode,
		s.Cfg.RootHeight, s.Height, s.Cfg.Seed, prior, r.Family, strings.Join(r.Script, " "))
	return b.String()
}

type gen struct {
	t              *rapid.T
	s              *bs.Sim
	opt            Options
	res            *Result
	rng            *rand.Rand
	byz            []int
	honest         []int
	bumps          int
	segs           int
	classes        map[string]bool
	dMode          string // default behaviour of Byzantine engines outside scripted rounds: "silent" | "honestlike"
	noise          int    // 0 none, 1 light, 2 heavy (random redelivery / crafted replay)
	dup            bool
	pl             plan
	stash          []*lib.QuorumCertificate // certificates only the adversary holds (formed from votes, never sent)
	withheld       *bs.Proposal             // the proposal of the last withheld certificate
	preferWithheld bool                     // the stale re-proposal takes the withheld certificate when it formed
}

func (g *gen) class(c string) { g.classes[c] = true }

func (g *gen) script(f string, a ...any) {
	g.res.Script = append(g.res.Script, fmt.Sprintf(f, a...))
	g.s.Note("{"+f+"}", a...)
}

func (g *gen) cut() bool {
	if g.opt.CutSteps > 0 && g.s.Step >= g.opt.CutSteps {
		g.res.Cut = true
		return true
	}
	return false
}

// Committee draws the validator set.
func Committee(t *rapid.T) (cfg bs.Config, mode string, g1, g2 []int) { return committee(t, false) }

// committee with nearThird draws only committees whose Byzantine power is close to one third (4 equal validators, or a
// boundary distribution): scenarios in which two conflicting quorums must overlap in the Byzantine validators only.
func committee(t *rapid.T, nearThird bool) (cfg bs.Config, mode string, g1, g2 []int) {
	n := rapid.IntRange(4, 7).Draw(t, "n")
	mode = rapid.SampledFrom([]string{"equal", "equal", "random", "random", "boundary", "boundary", "nobyz"}).Draw(t, "committee")
	if nearThird {
		mode = rapid.SampledFrom([]string{"equal", "boundary", "boundary"}).Draw(t, "committeeNearThird")
		if mode == "equal" {
			n = 4
		}
	}
	power := make([]uint64, n)
	byz := make([]bool, n)
	switch mode {
	case "equal", "nobyz":
		for i := range power {
			power[i] = 10
		}
		if mode == "equal" {
			nb := rapid.IntRange(1, (n-1)/3).Draw(t, "nbyz")
			for _, i := range pick(t, n, nb, "byzset") {
				byz[i] = true
			}
		}
	case "random":
		var total uint64
		for i := range power {
			power[i] = uint64(rapid.IntRange(1, 20).Draw(t, "power"))
			total += power[i]
		}
		// Byzantine subset: greedily add validators (in a drawn order) while 3f < T
		order := perm(t, n, "byzorder")
		want := rapid.IntRange(1, 2).Draw(t, "nbyz")
		var f uint64
		for _, i := range order {
			if want == 0 {
				break
			}
			if 3*(f+power[i]) < total {
				byz[i] = true
				f += power[i]
				want--
			}
		}
	case "boundary":
		// T % 3 != 0, f maximal-ish with 3f < T, correct groups g1, g2 with f+g1 == floor(2T/3) and f+g2 >= floor(2T/3)
		for {
			T := uint64(rapid.IntRange(4, 40).Draw(t, "T"))
			if T%3 == 0 {
				T++
			}
			q := 2 * T / 3
			fmax := (T - 1) / 3
			fmin := uint64(1)
			if 2*q > T && 2*q-T > fmin {
				fmin = 2*q - T
			}
			if fmin > fmax {
				continue
			}
			f := uint64(rapid.IntRange(int(fmin), int(fmax)).Draw(t, "f"))
			p1, p2 := q-f, T-q
			nb := rapid.IntRange(1, max(1, (n-1)/3)).Draw(t, "nbyz")
			if uint64(nb) > f {
				nb = int(f)
			}
			n1 := rapid.IntRange(1, n-nb-1).Draw(t, "n1")
			n2 := n - nb - n1
			if p1 < uint64(n1) || p2 < uint64(n2) || n2 < 1 {
				continue
			}
			idx := perm(t, n, "layout")
			parts := func(total uint64, k int, label string) []uint64 {
				out := make([]uint64, k)
				for i := range out {
					out[i] = 1
				}
				rem := total - uint64(k)
				for i := 0; i < k-1 && rem > 0; i++ {
					x := uint64(rapid.IntRange(0, int(rem)).Draw(t, label))
					out[i] += x
					rem -= x
				}
				out[k-1] += rem
				return out
			}
			pos := 0
			for _, p := range parts(f, nb, "fsplit") {
				power[idx[pos]], byz[idx[pos]] = p, true
				pos++
			}
			for _, p := range parts(p1, n1, "g1split") {
				power[idx[pos]] = p
				g1 = append(g1, idx[pos])
				pos++
			}
			for _, p := range parts(p2, n2, "g2split") {
				power[idx[pos]] = p
				g2 = append(g2, idx[pos])
				pos++
			}
			sort.Ints(g1)
			sort.Ints(g2)
			break
		}
	}
	cfg = bs.Config{Power: power, Byz: byz, Height: uint64(rapid.SampledFrom([]int{1, 2, 3, 5, 8, 12, 15}).Draw(t, "height")), RootHeight: uint64(rapid.IntRange(3, 9).Draw(t, "root")),
		Seed: rapid.Uint64Range(0, 1<<20).Draw(t, "seed")}
	// the root height of the committee's last certificate results: proposals built before it are refused (msg.RcBuildHeight check)
	cfg.LastRootHeightUpdated = cfg.RootHeight - uint64(rapid.IntRange(0, 2).Draw(t, "lastRootUpdated"))
	return
}

func pick(t *rapid.T, n, k int, label string) []int {
	p := perm(t, n, label)
	out := append([]int(nil), p[:k]...)
	sort.Ints(out)
	return out
}

func perm(t *rapid.T, n int, label string) []int {
	p := make([]int, n)
	for i := range p {
		p[i] = i
	}
	for i := n - 1; i > 0; i-- {
		j := rapid.IntRange(0, i).Draw(t, label)
		p[i], p[j] = p[j], p[i]
	}
	return p
}

var families = []string{"F1", "F2", "F3", "F3", "F3", "F4", "F5", "F6", "F7", "F7"}

// Run draws a committee and plays a scenario on a fresh simulator. The caller owns res.S (Close it).
func Run(t *rapid.T, opt Options) *Result {
	fams := families
	if opt.Families != "" {
		fams = strings.Split(opt.Families, ",")
	}
	fam := rapid.SampledFrom(fams).Draw(t, "family")
	cfg, mode, g1, g2 := committee(t, fam == "F7")
	opt.family = fam
	return RunOn(t, opt, cfg, mode, g1, g2)
}

// plan is what a planned family fixes before the world exists: the views in which a Byzantine validator must be
// electable (the adversary predicts the sortition) - the sortition seed of the case is searched accordingly.
type plan struct {
	k1, k2, k3 int
	bump       bool
	r1, r2, r3 uint64
	rootB      uint64
	ok         bool
	preLock    bool // F3: a correct leader's round with partial PRECOMMIT delivery and no commit comes first (round 0)
	byzLock    bool // F3: the lock round is led by the Byzantine validator too (same block as the withheld certificate, other results)
}

func byzSet(cfg bs.Config) (b, h []int) {
	for i, x := range cfg.Byz {
		if x {
			b = append(b, i)
		} else {
			h = append(h, i)
		}
	}
	return
}

func anyByzLeadable(s *bs.Sim, root, round uint64, voters []int) bool {
	for _, d := range s.Byzantine() {
		if s.PlanLeader(root, round, d, voters).OK {
			return true
		}
	}
	return false
}

func honestLeadable(s *bs.Sim, root, round uint64, voters []int) (int, bool) {
	var bz uint64
	for _, b := range s.Byzantine() {
		bz += s.Cfg.Power[b]
	}
	for _, l := range voters {
		pl := s.PlanLeader(root, round, l, voters)
		if pl.OK && pl.Votes-bz >= s.VS.MinimumMaj23 {
			return l, true
		}
	}
	return -1, false
}

// searchSeed looks for a sortition seed (deterministically derived from the drawn one) under which `feasible` holds.
func searchSeed(cfg bs.Config, tries int, feasible func(s *bs.Sim) bool) (bs.Config, bool) {
	base := cfg.Seed
	for k := 0; k < tries; k++ {
		cfg.Seed = base + uint64(k)*7919
		s := bs.New(cfg)
		ok := feasible(s)
		s.Close()
		if ok {
			return cfg, true
		}
	}
	cfg.Seed = base
	return cfg, false
}

// RunOn plays a scenario for a given committee.
func RunOn(t *rapid.T, opt Options, cfg bs.Config, mode string, g1, g2 []int) *Result {
	fams := families
	if opt.Families != "" {
		fams = strings.Split(opt.Families, ",")
	}
	fam := opt.family
	if fam == "" {
		fam = rapid.SampledFrom(fams).Draw(t, "family")
	}
	bz, hon := byzSet(cfg)
	if len(bz) == 0 && (fam == "F2" || fam == "F3" || fam == "F6" || fam == "F7") {
		fam = "F4"
	}
	if mode == "boundary" && fam != "F3" && fam != "F7" && rapid.IntRange(0, 2).Draw(t, "boundaryF6") > 0 {
		fam = "F6"
	}
	var pl plan
	switch fam {
	case "F3":
		// the relation between the view of the withheld certificate (root, r1) and the view of the later lock (rootB, r2)
		// is drawn first: older root & higher round / older root & lower-or-equal round / same root (then r1 < r2)
		switch rapid.SampledFrom([]string{"older-root-higher-round", "older-root-lower-round", "same-root"}).Draw(t, "certVsLock") {
		case "older-root-higher-round":
			pl.bump = true
			pl.k2 = rapid.IntRange(0, 1).Draw(t, "k2")
			pl.k1 = pl.k2 + rapid.IntRange(1, 2).Draw(t, "k1")
		case "older-root-lower-round":
			pl.bump = true
			pl.k1 = rapid.IntRange(0, 2).Draw(t, "k1")
			pl.k2 = pl.k1 + rapid.IntRange(0, 1).Draw(t, "k2")
		default:
			pl.k1, pl.k2 = rapid.IntRange(0, 2).Draw(t, "k1"), rapid.IntRange(0, 1).Draw(t, "k2")
		}
		pl.k3 = rapid.IntRange(0, 1).Draw(t, "k3")
		pl.byzLock = rapid.IntRange(0, 2).Draw(t, "byzLock") == 0
		pl.preLock = !pl.byzLock && rapid.Bool().Draw(t, "preLock")
		pl.r1 = uint64(pl.k1)
		if pl.preLock {
			pl.r1++
		}
		if pl.bump {
			pl.rootB, pl.r2 = cfg.RootHeight+1, uint64(pl.k2)
		} else {
			pl.rootB, pl.r2 = cfg.RootHeight, pl.r1+1+uint64(pl.k2)
		}
		pl.r3 = pl.r2 + 1 + uint64(pl.k3)
		cfg, pl.ok = searchSeed(cfg, 48, func(s *bs.Sim) bool {
			if !anyByzLeadable(s, cfg.RootHeight, pl.r1, hon) {
				return false
			}
			l := hon[0] // the replica assumed to have committed (and left) when the re-proposal happens
			if pl.byzLock || pl.preLock {
				if !anyByzLeadable(s, pl.rootB, pl.r2, hon) {
					return false
				}
			} else {
				var ok bool
				if l, ok = honestLeadable(s, pl.rootB, pl.r2, hon); !ok {
					return false
				}
			}
			var rest []int
			for _, i := range hon {
				if i != l {
					rest = append(rest, i)
				}
			}
			return anyByzLeadable(s, pl.rootB, pl.r3, rest)
		})
	case "F2", "F6":
		pl.k1 = rapid.IntRange(0, 2).Draw(t, "k1")
		pl.bump = rapid.IntRange(0, 5).Draw(t, "bumpFirst") == 0
		pl.r1, pl.rootB = uint64(pl.k1), cfg.RootHeight
		if pl.bump {
			pl.rootB++
		}
		cfg, pl.ok = searchSeed(cfg, 32, func(s *bs.Sim) bool { return anyByzLeadable(s, pl.rootB, pl.r1, hon) })
	}
	priorExcluded := false
	if len(bz) > 0 && rapid.IntRange(0, 3).Draw(t, "priorEvidence") == 0 {
		if findingOpen(KFLockNoEvid) {
			priorExcluded = true
		} else {
			cfg.PriorEvidence = true
		}
	}
	s := bs.New(cfg)
	s.StopAt = opt.CutSteps
	res := &Result{S: s, Mode: mode, G1: g1, G2: g2, Excluded: map[string]int{}}
	if priorExcluded {
		res.Excluded[KFLockNoEvid]++
	}
	g := &gen{t: t, s: s, opt: opt, res: res, byz: s.Byzantine(), honest: s.Honest(), classes: map[string]bool{}, pl: pl}
	g.rng = rand.New(rand.NewPCG(rapid.Uint64().Draw(t, "netseed"), 0x5eed))
	if g.opt.MaxSegments == 0 {
		g.opt.MaxSegments = 12
	}
	res.Family = fam
	g.dMode = rapid.SampledFrom([]string{"silent", "honestlike"}).Draw(t, "byzDefault")
	g.noise = rapid.SampledFrom([]int{0, 0, 1, 2}).Draw(t, "noise")
	if fam == "F5" {
		g.noise = 2
	}
	g.classIf(cfg.PriorEvidence, "height-starts-with-double-sign-evidence")
	g.class("fam=" + fam)
	g.class("committee=" + mode)
	g.class(fmt.Sprintf("n=%d", s.N))
	switch fam {
	case "F1":
		g.famLossy()
	case "F2", "F6":
		g.famEquivocate()
	case "F3":
		g.famWithheld()
	case "F4":
		g.famPartialCommit()
	case "F5":
		g.famReplay()
	case "F7":
		g.famConflictingLocks()
	}
	if opt.Scatter && !g.cut() && len(g.activeHonest()) > 0 {
		g.scatter()
	} else if opt.ExtraPartition && !g.done() {
		switch rapid.IntRange(0, 3).Draw(t, "extra") {
		case 0, 1:
			g.partition()
		case 2:
			if !g.secondLock() {
				g.lockRoundN(false, true)
				if !g.done() {
					g.secondLock()
				}
			}
		}
	}
	if !opt.NoFinish && !g.res.Cut {
		g.finish()
	}
	st := s.Stats
	g.classIf(st.RoundChangeLocked > 0, "nt:round-change-while-locked")
	g.classIf(st.BumpAfterCert > 0, "nt:bump-after-certificate")
	g.classIf(len(st.VotedBlocks) >= 2, "nt:two-proposals-voted")
	g.classIf(st.Unlocks > 0, "locked-replica-voted-other-block")
	g.classIf(st.GossipCommits > 0, "commit-via-gossip")
	g.classIf(g.bumps > 0, "root-bump")
	g.class(fmt.Sprintf("committed-correct=%d/%d", s.CommittedCorrect(), len(g.honest)))
	stuck := 0
	for _, i := range g.honest {
		if s.R[i].Stuck {
			stuck++
		}
	}
	g.classIf(stuck > 0, "replica-stuck-in-commit-process")
	g.classIf(g.dup, "dup-reset")
	g.classIf(res.Cut, "cut")
	for c := range g.classes {
		res.Classes = append(res.Classes, c)
	}
	sort.Strings(res.Classes)
	res.DupReset = g.dup
	return res
}

// Nontrivial is the C01 rule: a round change happened with some correct replica locked, or a root bump happened
// after a certificate existed, or two different proposals got >= 1 vote each in the height.
func (r *Result) Nontrivial() bool {
	st := r.S.Stats
	return st.RoundChangeLocked > 0 || st.BumpAfterCert > 0 || len(st.VotedBlocks) >= 2
}

func (g *gen) classIf(c bool, l string) {
	if c {
		g.class(l)
	}
}

// ---------------------------------------------------------------------------------------------------------------
// positions

// front is the most common (root, round) among the active correct replicas (ties: highest).
func (g *gen) front() (root, round uint64, at []int) {
	type k struct{ root, round uint64 }
	cnt := map[k][]int{}
	for _, i := range g.honest {
		if g.s.Active(i) {
			r := g.s.R[i]
			kk := k{r.RootHeight(), r.B.Round}
			cnt[kk] = append(cnt[kk], i)
		}
	}
	var best k
	for kk, v := range cnt {
		b := cnt[best]
		if len(v) > len(b) || (len(v) == len(b) && (kk.root > best.root || (kk.root == best.root && kk.round > best.round))) {
			best = kk
		}
	}
	return best.root, best.round, cnt[best]
}

func (g *gen) activeHonest() (out []int) {
	for _, i := range g.honest {
		if g.s.Active(i) {
			out = append(out, i)
		}
	}
	return
}

func (g *gen) done() bool {
	return len(g.activeHonest()) == 0 || g.segs >= g.opt.MaxSegments || g.cut()
}

// ---------------------------------------------------------------------------------------------------------------
// segments

type segOpt struct {
	want       int     // steer the election towards this validator (-1 = natural)
	p          float64 // delivery probability of ordinary messages
	pm         float64 // delivery probability of pacemaker messages
	block      float64 // delivery probability of block gossip
	skip       float64 // probability that a replica's timer does not fire in a step (it lags behind)
	shuffle    bool
	byzSilent  bool // Byzantine engines' messages are never routed
	dropKinds  map[string]bool
	onlyTo     map[string][]int // kind -> recipients allowed
	dropFrom   map[int]bool
	lead       *bs.ByzLeader
	extraAfter func(step int, sent []*bs.Env)
	afterRoute func(step int, sent []*bs.Env)
	awake      map[int]bool // when set: only these replicas' timers fire and only they receive anything
	byzActive  bool         // Byzantine engines take part like correct ones in this segment
}

func (g *gen) runSeg(o segOpt) []*bs.Env {
	s := g.s
	g.segs++
	root, round, at := g.front()
	var plan bs.ElectionPlan
	if o.want >= 0 {
		plan = s.PlanLeader(root, round, o.want, at)
	}
	noiseSeed := g.rng.Uint64()
	nr := rand.New(rand.NewPCG(noiseSeed, 77))
	pol := &bs.RoundPolicy{}
	if o.skip > 0 {
		pol.Fire = func(step, i int) bool { return nr.Float64() >= o.skip }
	}
	if o.awake != nil {
		pol.Fire = func(step, i int) bool { return o.awake[i] }
	}
	if o.shuffle {
		pol.Order = func(step int, ids []int) []int {
			nr.Shuffle(len(ids), func(a, b int) { ids[a], ids[b] = ids[b], ids[a] })
			return ids
		}
	}
	pol.Route = func(e *bs.Env, to int) bool {
		if o.dropFrom[e.From] || (o.awake != nil && (!o.awake[to] || !o.awake[e.From])) {
			return false
		}
		if o.lead != nil && o.lead.SuppressEngine(e) {
			return false
		}
		if s.R[e.From].Byz && !e.Crafted && !o.byzActive && (o.byzSilent || (g.dMode == "silent" && o.lead == nil && o.want != e.From)) {
			return false
		}
		if o.want >= 0 && e.Kind == "EL" && plan.Suppress[e.From] && e.View.RootHeight == root && e.View.Round == round {
			return false
		}
		if o.dropKinds[e.Kind] {
			return false
		}
		if lst, ok := o.onlyTo[e.Kind]; ok {
			found := false
			for _, x := range lst {
				if x == to {
					found = true
				}
			}
			if !found {
				return false
			}
		}
		switch e.Kind {
		case "PM":
			return nr.Float64() < o.pm
		case "BLOCK":
			return nr.Float64() < o.block
		}
		return o.p >= 1 || nr.Float64() < o.p
	}
	pol.After = func(step int, sent []*bs.Env) {
		// the Byzantine validators help electing `want`
		if o.want >= 0 && (s.R[o.want].Byz || o.byzActive) && len(sent) > 0 {
			for _, e := range sent {
				if e.Kind == "ELV" && e.View.RootHeight == root && e.View.Round == round {
					pay := s.ElectionVotePayload(root, round, o.want)
					for _, b := range g.byz {
						if !s.HasSigned(b, pay) {
							v := s.CraftVote(b, pay, nil, nil, []int{o.want})
							_ = s.Deliver(v.ID, o.want)
						}
					}
					break
				}
			}
		}
		if o.lead != nil {
			o.lead.After(step, sent)
		}
		if o.extraAfter != nil {
			o.extraAfter(step, sent)
		}
		g.noiseHook(nr, sent)
	}
	pol.AfterRoute = o.afterRoute
	return s.RunRound(pol)
}

// noiseHook: redelivery of arbitrary old messages to arbitrary replicas (reordering, duplication, replay) and,
// at the heavy level, Byzantine re-signing of old certificates inside new messages.
func (g *gen) noiseHook(nr *rand.Rand, sent []*bs.Env) {
	s := g.s
	if g.noise == 0 || len(s.Pool) == 0 {
		return
	}
	k := 0
	if nr.Float64() < 0.5*float64(g.noise) {
		k = 1 + nr.IntN(2*g.noise)
	}
	act := g.activeHonest()
	if len(act) == 0 {
		return
	}
	for ; k > 0; k-- {
		id := nr.IntN(len(s.Pool))
		to := act[nr.IntN(len(act))]
		s.Note("~")
		_ = s.Deliver(id, to)
		g.class("noise:redelivery")
	}
	if g.noise < 2 || len(g.byz) == 0 || nr.Float64() > 0.35 {
		return
	}
	g.craftedReplay(nr)
}

// craftedReplay: a Byzantine validator puts an old certificate into a new message of the current view.
func (g *gen) craftedReplay(nr *rand.Rand) {
	s := g.s
	certs := s.Certs()
	if len(certs) == 0 {
		return
	}
	root, round, at := g.front()
	if len(at) == 0 {
		return
	}
	d := g.byz[nr.IntN(len(g.byz))]
	cert := certs[nr.IntN(len(certs))]
	sub := subset(nr, at)
	switch nr.IntN(6) {
	case 0, 1: // PRECOMMIT / COMMIT of the current view carrying a certificate of another round/phase/root height
		ph := bs.Precommit
		if nr.IntN(2) == 0 {
			ph = bs.Commit
		}
		if len(cert.BlockHash) == 0 {
			return
		}
		if ph == bs.Commit && cert.Header.Phase != bs.PrecommitVote && ev.Open(KFWrongPhase) {
			g.res.Excluded[KFWrongPhase]++
			return
		}
		if cert.Header.Phase == bs.PrecommitVote && s.CertPower(cert) < s.VS.MinimumMaj23 && ev.Open(KFStripBlock) {
			g.res.Excluded[KFStripBlock]++
			return
		}
		if ph == bs.Precommit && cert.Header.Phase != bs.ProposeVote && ev.Open(KFElectPrecom) {
			g.res.Excluded[KFElectPrecom]++
			return
		}
		// PRECOMMIT's build height is what the replicas store with their lock: genuine while the forged-build-height finding is open
		rcb := root
		if p := s.FindProposal(cert.BlockHash, cert.ResultsHash); p != nil && findingOpen(KFBuildHeight) {
			if rcb != p.RcBuild {
				g.res.Excluded[KFBuildHeight]++
			}
			rcb = p.RcBuild
		}
		e := s.CraftJustified(d, root, round, ph, cert, rcb, sub)
		g.deliverAll(e)
		g.class("replay:cert-in-new-leader-msg")
	case 2: // block gossip with any certificate (partial, wrong phase, old root height)
		if len(cert.BlockHash) == 0 {
			return
		}
		p := s.FindProposal(cert.BlockHash, cert.ResultsHash)
		if p == nil {
			return
		}
		q := bs.CloneQC(cert)
		q.Block, q.Results = p.Block, p.Results
		g.deliverAll(retarget(s.InjectBlock(d, q), sub))
		g.class("replay:cert-as-block-gossip")
	case 3: // election vote carrying any certificate as HighQc, to everybody who might lead
		if len(cert.BlockHash) == 0 {
			return
		}
		p := s.FindProposal(cert.BlockHash, cert.ResultsHash)
		hq := bs.CloneQC(cert)
		leader := at[nr.IntN(len(at))]
		pay := s.ElectionVotePayload(root, round, leader)
		withBlock := nr.IntN(3) > 0
		if !withBlock && ev.Open(KFHighQcBlock) {
			g.res.Excluded[KFHighQcBlock]++
			withBlock = true
		}
		if p == nil && ev.Open(KFHighQcBlock) {
			return
		}
		if p != nil && withBlock {
			hq.Block, hq.Results = p.Block, p.Results
			pay.Block, pay.Results = p.Block, p.Results
		}
		// the vote also carries a build height (unsigned): the genuine one of that proposal or, unless the finding about forged
		// build heights is open, a forged one (0) - a replica that adopts it re-reports it in its own election votes
		rc := uint64(0)
		if p != nil {
			rc = p.RcBuild
			if nr.IntN(2) == 0 {
				if findingOpen(KFBuildHeight) {
					g.res.Excluded[KFBuildHeight]++
				} else {
					rc = 0
				}
			}
		}
		g.deliverAll(s.CraftVoteBuild(d, pay, hq, rc, []int{leader}))
		g.class("replay:cert-as-highqc-in-vote")
	case 4: // PROPOSE of the current view justified by an election certificate of another view
		var el []*lib.QuorumCertificate
		for _, c := range certs {
			if c.Header.Phase == bs.ElectionVote && string(c.ProposerKey) == string(s.R[d].Pub) {
				el = append(el, c)
			}
		}
		if len(el) == 0 {
			return
		}
		just := el[nr.IntN(len(el))]
		prop := s.NewProposal(d, fmt.Sprintf("replayprop/%d", s.Step), root)
		var hq *lib.QuorumCertificate
		if len(cert.BlockHash) > 0 && nr.IntN(2) == 0 {
			if p := s.FindProposal(cert.BlockHash, cert.ResultsHash); p != nil {
				prop, hq = p, cert
			}
		}
		g.deliverAll(s.CraftPropose(d, root, round, just, prop, hq, nil, sub))
		g.class("replay:stale-election-cert")
	case 5: // inflated pacemaker round
		if PacemakerVulnerable(s) && ev.Open(KFPacemaker) {
			g.res.Excluded[KFPacemaker]++
			return
		}
		g.deliverAll(s.CraftPacemaker(d, root, round+uint64(1+nr.IntN(50)), sub))
		g.class("byz:inflated-pacemaker")
	}
}

func inter(a, b []int) (out []int) {
	for _, x := range a {
		for _, y := range b {
			if x == y {
				out = append(out, x)
			}
		}
	}
	return
}

func retarget(e *bs.Env, to []int) *bs.Env { e.To = to; return e }

func (g *gen) deliverAll(e *bs.Env) {
	for _, to := range e.To {
		_ = g.s.Deliver(e.ID, to)
	}
}

func subset(nr *rand.Rand, from []int) (out []int) {
	for _, x := range from {
		if nr.IntN(3) > 0 {
			out = append(out, x)
		}
	}
	if len(out) == 0 && len(from) > 0 {
		out = []int{from[nr.IntN(len(from))]}
	}
	return
}

func (g *gen) drawSubset(from []int, label string, allowEmpty bool) (out []int) {
	for _, x := range from {
		if rapid.Bool().Draw(g.t, label) {
			out = append(out, x)
		}
	}
	if len(out) == 0 && !allowEmpty && len(from) > 0 {
		out = []int{from[rapid.IntRange(0, len(from)-1).Draw(g.t, label+"1")]}
	}
	return
}

// burn: a round in which nothing (or only pacemaker messages) gets through.
func (g *gen) burn() {
	g.script("burn")
	g.runSeg(segOpt{want: -1, p: 0, pm: float64(rapid.IntRange(0, 1).Draw(g.t, "burnpm"))})
}

// lossy: a round over a lossy, reordering network with lagging replicas.
func (g *gen) lossy() {
	p := rapid.SampledFrom([]float64{1, 0.9, 0.75, 0.5}).Draw(g.t, "p")
	skip := rapid.SampledFrom([]float64{0, 0, 0.1, 0.25}).Draw(g.t, "skip")
	g.script("lossy(p=%.2f,skip=%.2f)", p, skip)
	g.class("seg:lossy")
	g.runSeg(segOpt{want: -1, p: p, pm: p, block: p / 2, skip: skip, shuffle: true})
}

// partition: only a subset of the replicas runs (one or two rounds, lossy among themselves); the others are frozen
// (slow process / cut off) and fall behind in rounds.
func (g *gen) partition() {
	act := g.activeHonest()
	if len(act) < 2 {
		g.lossy()
		return
	}
	awake := g.drawSubset(append(append([]int{}, act...), g.byz...), "awake", false)
	in := map[int]bool{}
	for _, i := range awake {
		in[i] = true
	}
	k := rapid.IntRange(1, 2).Draw(g.t, "partRounds")
	p := rapid.SampledFrom([]float64{1, 0.9, 0.5, 0}).Draw(g.t, "partP")
	g.script("partition(awake=%v,rounds=%d,p=%.2f)", awake, k, p)
	g.class("seg:partition")
	for ; k > 0 && !g.done(); k-- {
		g.segs++
		nr := rand.New(rand.NewPCG(g.rng.Uint64(), 99))
		g.s.RunRound(&bs.RoundPolicy{
			Fire:  func(step, i int) bool { return in[i] },
			Route: func(e *bs.Env, to int) bool { return in[to] && in[e.From] && e.Kind != "BLOCK" && nr.Float64() < p },
		})
	}
}

// clean: full delivery, natural leader.
func (g *gen) clean(gossip bool) {
	g.script("clean")
	b := 0.0
	if gossip {
		b = 1
	}
	g.runSeg(segOpt{want: -1, p: 1, pm: 1, block: b})
}

// bump: the root-chain update reaches all or some replicas.
func (g *gen) bump() {
	if g.bumps >= 2 {
		return
	}
	g.bumps++
	if rapid.IntRange(0, 3).Draw(g.t, "bumpPartial") == 0 {
		sub := g.drawSubset(allIdx(g.s.N), "bumpset", false)
		g.script("bump%v", sub)
		g.class("bump:partial")
		for _, i := range sub {
			g.s.RootBump(i)
		}
		// the others learn of it one segment later
		late := []int{}
		in := map[int]bool{}
		for _, i := range sub {
			in[i] = true
		}
		for i := 0; i < g.s.N; i++ {
			if !in[i] {
				late = append(late, i)
			}
		}
		if len(late) > 0 && !g.done() {
			g.lossy()
			g.script("bump-late%v", late)
			for _, i := range late {
				g.s.RootBump(i)
			}
		} else {
			for _, i := range late {
				g.s.RootBump(i)
			}
		}
		return
	}
	g.script("bump-all")
	g.s.RootBumpAll()
}

func (g *gen) dupReset() {
	if !g.opt.AllowDupReset {
		return
	}
	sub := g.drawSubset(g.activeHonest(), "dupset", false)
	g.script("DUPRESET%v", sub)
	g.dup = true
	for _, i := range sub {
		g.s.DupReset(i)
	}
}

func allIdx(n int) []int {
	out := make([]int, n)
	for i := range out {
		out[i] = i
	}
	return out
}

// leadable picks a Byzantine validator that the adversary can get elected in the front view.
func (g *gen) leadable() (int, bool) {
	root, round, at := g.front()
	for _, d := range g.byz {
		if g.s.PlanLeader(root, round, d, at).OK {
			return d, true
		}
	}
	return -1, false
}

// untilLeadable burns rounds (at most k) until a Byzantine validator can be elected.
func (g *gen) untilLeadable(k int) (int, bool) {
	for ; ; k-- {
		if d, ok := g.leadable(); ok {
			return d, true
		}
		if k <= 0 || g.done() || g.roundCap() {
			return -1, false
		}
		g.burn()
	}
}

// roundCap keeps a root height below 8 rounds.
func (g *gen) roundCap() bool {
	_, round, _ := g.front()
	return round >= 7
}

// honestLeader picks a correct validator that can be elected in the front view by the correct replicas there.
func (g *gen) honestLeader() (int, bool) {
	root, round, at := g.front()
	nat := g.s.PredictedLeader(root, round)
	cands := append([]int{nat}, at...)
	for _, l := range cands {
		if g.s.R[l].Byz || !g.s.Active(l) {
			continue
		}
		pl := g.s.PlanLeader(root, round, l, at)
		var bz uint64
		for _, b := range g.byz {
			bz += g.s.Cfg.Power[b]
		}
		if pl.OK && pl.Votes-bz >= g.s.VS.MinimumMaj23 {
			return l, true
		}
	}
	return -1, false
}

// lockRound: a correct leader's round in which PRECOMMIT reaches `lockers` and COMMIT reaches `committers`.
func (g *gen) lockRound(allLock bool) bool { return g.lockRoundN(allLock, false) }

// lockRoundN with few=true delivers PRECOMMIT to a small set only (the rest keeps a +2/3 majority together with the
// Byzantine validators), the preparation of secondLock.
func (g *gen) lockRoundN(allLock, few bool) bool {
	l, ok := g.honestLeader()
	if !ok {
		g.clean(false)
		return false
	}
	_, _, at := g.front()
	lockers := at
	if few {
		var bz uint64
		for _, b := range g.byz {
			bz += g.s.Cfg.Power[b]
		}
		lockers = nil
		for _, i := range perm(g.t, len(at), "fewOrder") {
			c := at[i]
			if c == l {
				continue // the leader always sees its own PRECOMMIT
			}
			var rest []int
			for _, x := range at {
				if x != c && x != l {
					in := false
					for _, y := range lockers {
						in = in || y == x
					}
					if !in {
						rest = append(rest, x)
					}
				}
			}
			if g.s.PowerOf(rest)+bz >= g.s.VS.MinimumMaj23 {
				lockers = append(lockers, c)
				if rapid.Bool().Draw(g.t, "fewStop") {
					break
				}
			}
		}
		// the leader locks as well (own copy); it is cut off together with the lockers afterwards
	} else if !allLock {
		lockers = g.drawSubset(at, "lockers", false)
	}
	var committers []int // the leader always has its own copy of COMMIT
	if rapid.IntRange(0, 3).Draw(g.t, "moreCommitters") == 0 {
		committers = g.drawSubset(at, "committers", true)
	}
	g.script("lock(L=%d,precommit->%v,commit->%v)", l, lockers, committers)
	g.class("seg:partial-commit")
	g.runSeg(segOpt{want: l, p: 1, pm: 0, byzSilent: true, onlyTo: map[string][]int{"PC": lockers, "CM": committers}})
	return true
}

// secondLock: while the replicas that hold a lock are cut off, the others (with the Byzantine validators taking part)
// run a round of their own: a correct leader that knows of no lock proposes a fresh block, PRECOMMIT reaches a drawn
// subset, COMMIT nobody. Afterwards correct replicas are locked on DIFFERENT blocks at different views - the state
// that only the safe-node liveness branch (and a leader re-proposing the highest lock) can resolve.
func (g *gen) secondLock() bool {
	s := g.s
	var lockers, rest []int
	for _, i := range g.activeHonest() {
		if s.R[i].B.HighQC != nil {
			lockers = append(lockers, i)
		} else {
			rest = append(rest, i)
		}
	}
	if len(lockers) == 0 || len(rest) == 0 {
		return false
	}
	var bz uint64
	for _, b := range g.byz {
		bz += s.Cfg.Power[b]
	}
	if s.PowerOf(rest)+bz < s.VS.MinimumMaj23 {
		return false
	}
	root, round, _ := g.front()
	awake := map[int]bool{}
	for _, i := range rest {
		if s.R[i].RootHeight() == root && s.R[i].B.Round == round {
			awake[i] = true
		}
	}
	for _, b := range g.byz {
		awake[b] = true
	}
	var l = -1
	for _, i := range rest {
		if awake[i] && s.PlanLeader(root, round, i, rest).OK {
			l = i
			break
		}
	}
	if l < 0 {
		return false
	}
	pcTo := g.drawSubset(rest, "secondLockers", false)
	var cmTo []int
	if rapid.IntRange(0, 3).Draw(g.t, "secondCommit") > 0 {
		// PRECOMMIT reaches just enough replicas (with the leader and the Byzantine validators) for a COMMIT; one of them commits
		pcTo = []int{l}
		for _, i := range perm(g.t, len(rest), "secondOrder") {
			if s.PowerOf(pcTo)+bz >= s.VS.MinimumMaj23 {
				break
			}
			if rest[i] != l {
				pcTo = append(pcTo, rest[i])
			}
		}
		sort.Ints(pcTo)
		// COMMIT reaches nobody but the leader itself (its own copy): the leader commits, the other lockers stay behind locked
		cmTo = []int{}
	}
	g.script("second-lock(L=%d,awake=%v,precommit->%v,commit->%v,cut-off=%v)", l, rest, pcTo, cmTo, lockers)
	g.class("seg:second-lock")
	g.runSeg(segOpt{want: l, p: 1, pm: 0, awake: awake, byzActive: true, onlyTo: map[string][]int{"PC": append(append([]int{}, pcTo...), g.byz...), "CM": cmTo}})
	return true
}

// scatter: every correct replica times out alone (nothing is delivered) for its own number of rounds - pairwise different,
// one stays where it is, the others are several rounds ahead of it and one round apart from each other.
func (g *gen) scatter() {
	act := g.activeHonest()
	order := perm(g.t, len(act), "scatterOrder")
	gap := rapid.IntRange(4, 7).Draw(g.t, "scatterGap")
	var desc []string
	for k, idx := range order {
		i := act[idx]
		rounds := 0
		if k > 0 {
			rounds = gap + k - 1
		}
		desc = append(desc, fmt.Sprintf("%d:+%d", i, rounds))
		for ; rounds > 0; rounds-- {
			g.s.RunRound(&bs.RoundPolicy{Fire: func(step, j int) bool { return j == i }, Route: func(*bs.Env, int) bool { return false }})
		}
	}
	g.script("scatter(%s)", strings.Join(desc, ","))
	g.class("seg:scatter-rounds")
}

// catchUp lets the correct replicas that are behind the front round (they were cut off) time out alone until they
// are in the front round again.
func (g *gen) catchUp() {
	for k := 0; k < 3 && !g.done(); k++ {
		root, round, _ := g.front()
		lag := map[int]bool{}
		for _, i := range g.activeHonest() {
			if r := g.s.R[i]; r.RootHeight() == root && r.B.Round < round {
				lag[i] = true
			}
		}
		if len(lag) == 0 {
			return
		}
		g.script("catch-up%v", keysOf(lag))
		g.runSeg(segOpt{want: -1, p: 0, pm: 0, awake: lag})
	}
}

func keysOf(m map[int]bool) (out []int) {
	for k := range m {
		out = append(out, k)
	}
	sort.Ints(out)
	return
}

// someLock returns the lock of some correct replica in the front view.
func (g *gen) someLock() *lib.QuorumCertificate {
	_, _, at := g.front()
	var other *lib.QuorumCertificate
	for _, i := range at {
		if h := g.s.R[i].B.HighQC; h != nil {
			if g.withheld == nil || string(h.BlockHash) != string(g.withheld.BlockHash) {
				return h // a lock on something else than the withheld proposal
			}
			other = h
		}
	}
	return other
}

// lockedLeaderRound: a round led by the correct replica holding the HIGHEST lock, with every message delivered and the
// Byzantine engines taking part - replicas locked lower (or lagging) report their older certificates to that leader.
func (g *gen) lockedLeaderRound() bool {
	s := g.s
	root, round, at := g.front()
	var top *lib.View
	for _, i := range at {
		if h := s.R[i].B.HighQC; h != nil && (top == nil || top.Less(h.Header)) {
			top = h.Header
		}
	}
	best := -1
	for _, i := range at {
		if h := s.R[i].B.HighQC; h != nil && top != nil && !h.Header.Less(top) && s.PlanLeader(root, round, i, at).OK {
			best = i
			break
		}
	}
	if best < 0 {
		return false
	}
	g.script("locked-leader(L=%d,lock=%d.%d)", best, s.R[best].B.HighQC.Header.RootHeight, s.R[best].B.HighQC.Header.Round)
	g.class("seg:leader-holds-highest-lock")
	reported := false
	g.runSeg(segOpt{want: best, p: 1, pm: 1, byzActive: true, shuffle: true, afterRoute: func(step int, sent []*bs.Env) {
		// whatever the correct leader proposes, the Byzantine validators vote for it (both vote phases, at once)
		for _, e := range sent {
			if e.Kind == "PR" && e.From == best && e.View.Round == round && !e.Crafted {
				q := e.Msg.Qc
				for _, ph := range []lib.Phase{bs.ProposeVote, bs.PrecommitVote} {
					for _, b := range g.byz {
						v := s.CraftVote(b, s.VotePayload(root, round, ph, q.BlockHash, q.ResultsHash, best), nil, nil, []int{best})
						_ = s.Deliver(v.ID, best)
					}
				}
			}
		}
		// once the election votes of the correct replicas are in, a Byzantine voter reports the OLDEST genuine +2/3
		// PROPOSE_VOTE certificate of the height (with its block) as its HighQc - the last such vote the leader sees
		if reported || len(g.byz) == 0 {
			return
		}
		for _, e := range sent {
			if e.Kind != "ELV" || e.View.RootHeight != root || e.View.Round != round {
				continue
			}
			var old *lib.QuorumCertificate
			for _, c := range append(append([]*lib.QuorumCertificate{}, g.stash...), s.Certs()...) {
				if c.Header.Phase == bs.ProposeVote && s.CertPower(c) >= s.VS.MinimumMaj23 && s.FindProposal(c.BlockHash, c.ResultsHash) != nil && (old == nil || c.Header.Less(old.Header)) {
					old = c
				}
			}
			if old == nil {
				return
			}
			reported = true
			p := s.FindProposal(old.BlockHash, old.ResultsHash)
			hq := bs.CloneQC(old)
			hq.Block, hq.Results = p.Block, p.Results
			v := s.CraftVoteBuild(g.byz[0], s.ElectionVotePayload(root, round, best), hq, p.RcBuild, []int{best})
			_ = s.Deliver(v.ID, best)
			g.class("byz:older-cert-reported-to-locked-correct-leader")
			return
		}
	}})
	return true
}

// byzRound: Byzantine leader d plays `variant` in the front view.
func (g *gen) byzRound(d int, variant string) *bs.ByzLeader {
	s := g.s
	root, round, at := g.front()
	bl := &bs.ByzLeader{S: s, D: d, Root: root, Round: round, CoSigners: g.byz, NoPartialCM: ev.Open(KFStripBlock)}
	desc := variant
	switch variant {
	case "withhold": // collect a +2/3 PROPOSE_VOTE certificate, withhold PRECOMMIT from everybody or from all but a subset
		wp := s.NewProposal(d, fmt.Sprintf("Y/%d/%d", root, round), root)
		if rapid.Bool().Draw(g.t, "withheldResultsVar") {
			wp = s.WithOtherResults(wp, d, fmt.Sprintf("w/%d/%d", root, round))
		}
		g.withheld = wp
		bl.Props = []*bs.Proposal{wp}
		bl.Targets = [][]int{at}
		if g.pl.preLock || rapid.IntRange(0, 2).Draw(g.t, "withholdAll") > 0 {
			bl.StopBefore = bs.Precommit
		} else {
			bl.StopBefore = bs.Commit
			bl.PrecommitTo = [][]int{g.drawSubset(at, "pcTo", false)}
			desc += fmt.Sprintf("-commit(precommit->%v)", bl.PrecommitTo[0])
		}
	case "equivocate":
		t1, t2 := inter(g.res.G1, at), inter(g.res.G2, at)
		if len(t1) == 0 || len(t2) == 0 || rapid.IntRange(0, 3).Draw(g.t, "eqGroups") == 0 {
			t1 = g.drawSubset(at, "eq1", false)
			t2 = nil
			in := map[int]bool{}
			for _, i := range t1 {
				in[i] = true
			}
			for _, i := range at {
				if !in[i] || rapid.IntRange(0, 5).Draw(g.t, "eqOverlap") == 0 {
					t2 = append(t2, i)
				}
			}
		}
		px := s.NewProposal(d, fmt.Sprintf("X/%d/%d", root, round), root)
		py := s.NewProposal(d, fmt.Sprintf("Y/%d/%d", root, round), root)
		differ := rapid.SampledFrom([]string{"block", "results", "block+results"}).Draw(g.t, "eqDiffer")
		switch differ {
		case "results": // the same block with two different certificate results
			py = s.WithOtherResults(px, d, fmt.Sprintf("eq/%d/%d", root, round))
		case "block+results":
			py = s.WithOtherResults(py, d, fmt.Sprintf("eq/%d/%d", root, round))
		}
		g.class("equivocation-differs-in:" + differ)
		bl.Props = []*bs.Proposal{px, py}
		bl.Targets = [][]int{t1, t2}
		desc += fmt.Sprintf("(%s:%v|%v)", differ, t1, t2)
	case "relock-same-block":
		// the block some replicas are locked on since an earlier round is certified AGAIN in this round (justified by their
		// lock), PRECOMMIT reaches the old lockers and a few more, COMMIT one replica
		h := g.someLock()
		prop := s.FindProposal(h.BlockHash, h.ResultsHash)
		if prop == nil {
			prop = s.NewProposal(d, fmt.Sprintf("R/%d/%d", root, round), root)
			h = nil
		}
		var lockers, fresh []int
		for _, i := range at {
			if l := s.R[i].B.HighQC; l != nil && h != nil && string(l.BlockHash) == string(h.BlockHash) {
				lockers = append(lockers, i)
			} else if rapid.IntRange(0, 2).Draw(g.t, "relockMore") == 0 {
				lockers = append(lockers, i)
				fresh = append(fresh, i)
			}
		}
		var bzp uint64
		for _, b := range g.byz {
			bzp += s.Cfg.Power[b]
		}
		for _, i := range at {
			if s.PowerOf(lockers)+bzp >= s.VS.MinimumMaj23 {
				break
			}
			in := false
			for _, x := range lockers {
				in = in || x == i
			}
			if !in {
				lockers = append(lockers, i)
				fresh = append(fresh, i)
			}
		}
		if len(lockers) == 0 {
			lockers = at
		}
		pool := fresh
		if len(pool) == 0 {
			pool = lockers
		}
		committers := []int{pool[rapid.IntRange(0, len(pool)-1).Draw(g.t, "relockCommitter")]}
		var hq *lib.QuorumCertificate
		if h != nil {
			hq = bs.CloneQC(h)
			hq.Block, hq.Results = nil, nil
		}
		bl.Props = []*bs.Proposal{prop}
		bl.HighQcs = []*lib.QuorumCertificate{hq}
		bl.Targets = [][]int{at}
		bl.PrecommitTo = [][]int{lockers}
		bl.CommitTo = [][]int{committers}
		desc += fmt.Sprintf("(block=%s precommit->%v commit->%v)", bs.Short(prop.BlockHash), lockers, committers)
		g.class("byz:locked-block-certified-again")
	case "lock-same-block":
		// the Byzantine leader proposes the block of the certificate it withheld, with OTHER certificate results, lets a
		// drawn set lock (enough for a COMMIT) and lets only some commit
		base := g.withheld
		if base == nil {
			base = s.NewProposal(d, fmt.Sprintf("Y/%d/%d", root, round), root)
		}
		p1 := s.WithOtherResults(base, d, fmt.Sprintf("lock/%d/%d", root, round))
		lockers := at
		if rapid.IntRange(0, 3).Draw(g.t, "byzLockAll") == 0 {
			lockers = g.drawSubset(at, "byzLockers", false)
		}
		committers := []int{lockers[rapid.IntRange(0, len(lockers)-1).Draw(g.t, "byzCommitter")]}
		if rapid.IntRange(0, 3).Draw(g.t, "moreByzCommitters") == 0 {
			committers = g.drawSubset(lockers, "byzCommitters", false)
		}
		bl.Props = []*bs.Proposal{p1}
		bl.Targets = [][]int{at}
		bl.PrecommitTo = [][]int{lockers}
		bl.CommitTo = [][]int{committers}
		desc += fmt.Sprintf("(block=%s results=%s precommit->%v commit->%v)", bs.Short(p1.BlockHash), bs.Short(p1.ResultsHash), lockers, committers)
		g.class("byz:same-block-other-results-locked")
	case "reused-sig-hqc":
		// first the leader re-proposes what the replicas are locked on with the genuine lock certificate (they validate it),
		// then - same round, the later PROPOSE replaces the stored one - a conflicting block whose "HighQc" has a later view and
		// the block's hashes but the aggregate signature and bitmap of that genuine certificate
		h := g.someLock()
		var pa *bs.Proposal
		if h != nil {
			pa = s.FindProposal(h.BlockHash, h.ResultsHash)
		}
		pb := s.NewProposal(d, fmt.Sprintf("F/%d/%d", root, round), root)
		if pa == nil {
			bl.Props, bl.HighQcs, bl.Targets = []*bs.Proposal{pb}, []*lib.QuorumCertificate{nil}, [][]int{at}
			desc += "(no-lock)"
			break
		}
		genuine := bs.CloneQC(h)
		genuine.Block, genuine.Results = nil, nil
		fake := &lib.QuorumCertificate{Header: s.HeaderView(root, round, bs.ProposeVote), BlockHash: pb.BlockHash, ResultsHash: pb.ResultsHash,
			ProposerKey: s.R[d].Pub, Signature: genuine.Signature}
		if rapid.Bool().Draw(g.t, "fakeKeepsProposer") {
			fake.ProposerKey = genuine.ProposerKey
		}
		bl.Props = []*bs.Proposal{pa, pb}
		bl.HighQcs = []*lib.QuorumCertificate{genuine, fake}
		bl.Targets = [][]int{at, at}
		desc += fmt.Sprintf("(genuine=%d.%d:%s then fabricated@%d.%d:%s)", h.Header.RootHeight, h.Header.Round, bs.Short(h.BlockHash), root, round, bs.Short(pb.BlockHash))
		g.class("byz:highqc-with-reused-signature")
	case "election-cert-hqc":
		// a conflicting block justified by the leader's own election certificate of this round used as HighQc
		bl.Props = []*bs.Proposal{s.NewProposal(d, fmt.Sprintf("E/%d/%d", root, round), root)}
		bl.Targets = [][]int{at}
		bl.ElectionCertAsHighQc = true
		g.class("byz:other-phase-cert-as-highqc")
	case "other-phase-hqc":
		// a conflicting block justified by a genuine +2/3 certificate of ANOTHER phase (election vote of an earlier round,
		// precommit vote) whose header is kept and whose hashes are those of the proposal where the phase leaves them unsigned
		prop := s.NewProposal(d, fmt.Sprintf("O/%d/%d", root, round), root)
		var cands []*lib.QuorumCertificate
		for _, c := range s.Certs() {
			if c.Header.Phase != bs.ProposeVote && s.CertPower(c) >= s.VS.MinimumMaj23 {
				cands = append(cands, c)
			}
		}
		var hq *lib.QuorumCertificate
		if len(cands) > 0 {
			c := cands[rapid.IntRange(0, len(cands)-1).Draw(g.t, "otherPhaseCert")]
			hq = bs.CloneQC(c)
			hq.Block, hq.Results = nil, nil
			if c.Header.Phase == bs.ElectionVote {
				hq.BlockHash, hq.ResultsHash = prop.BlockHash, prop.ResultsHash
			} else if p := s.FindProposal(c.BlockHash, c.ResultsHash); p != nil {
				prop = p
			}
			desc += fmt.Sprintf("(hqc=%s@%d.%d)", bs.PhaseName(c.Header.Phase), c.Header.RootHeight, c.Header.Round)
		}
		bl.Props, bl.HighQcs, bl.Targets = []*bs.Proposal{prop}, []*lib.QuorumCertificate{hq}, [][]int{at}
		g.class("byz:other-phase-cert-as-highqc")
	case "stale", "fresh", "partialhqc", "wrongphase":
		prop := s.NewProposal(d, fmt.Sprintf("Z/%d/%d", root, round), root)
		var hq *lib.QuorumCertificate
		switch variant {
		case "stale":
			// any +2/3 PROPOSE_VOTE certificate ever seen whose block differs from what some correct replica here is locked on
			var cands []*lib.QuorumCertificate
			all := append(append([]*lib.QuorumCertificate{}, g.stash...), s.Certs()...)
			if len(g.stash) > 0 && rapid.IntRange(0, 9).Draw(g.t, "fromStash") < 7 {
				all = g.stash
			}
			for _, c := range all {
				if c.Header.Phase != bs.ProposeVote || s.CertPower(c) < s.VS.MinimumMaj23 || s.FindProposal(c.BlockHash, c.ResultsHash) == nil {
					continue
				}
				for _, i := range at {
					if h := s.R[i].B.HighQC; h != nil && (string(h.BlockHash) != string(c.BlockHash) || string(h.ResultsHash) != string(c.ResultsHash)) {
						cands = append(cands, c)
						break
					}
				}
			}
			if len(cands) == 0 {
				for _, c := range all {
					if c.Header.Phase == bs.ProposeVote && s.CertPower(c) >= s.VS.MinimumMaj23 && s.FindProposal(c.BlockHash, c.ResultsHash) != nil {
						cands = append(cands, c)
					}
				}
			}
			if g.preferWithheld && g.withheld != nil {
				for _, c := range cands {
					if string(c.BlockHash) == string(g.withheld.BlockHash) && string(c.ResultsHash) == string(g.withheld.ResultsHash) {
						cands = []*lib.QuorumCertificate{c}
						break
					}
				}
			}
			if len(cands) > 0 {
				hq = cands[rapid.IntRange(0, len(cands)-1).Draw(g.t, "staleCert")]
				prop = s.FindProposal(hq.BlockHash, hq.ResultsHash)
				desc += fmt.Sprintf("(hqc=%d.%d:%s/%s)", hq.Header.RootHeight, hq.Header.Round, bs.Short(hq.BlockHash), bs.Short(hq.ResultsHash))
				g.class("byz:stale-cert-reproposed")
			} else {
				desc += "(no-cert)"
			}
		case "partialhqc":
			// a certificate for a made-up later view signed by the Byzantine validators only (partial)
			r2 := round + uint64(rapid.IntRange(0, 3).Draw(g.t, "hqcRound"))
			pay := s.VotePayload(root, r2, bs.ProposeVote, prop.BlockHash, prop.ResultsHash, d)
			hq, _ = s.CraftCert(pay, g.byz)
			desc += fmt.Sprintf("(hqc=byz-only@%d.%d)", root, r2)
			g.class("byz:partial-cert-as-highqc")
		case "wrongphase":
			if ev.Open(KFWrongPhase) {
				g.res.Excluded[KFWrongPhase]++
				desc = "fresh(wrongphase-excluded)"
			} else {
				bl.WrongPhaseCM = true
				g.class("byz:wrong-phase-cert-in-commit")
			}
		}
		bl.Props = []*bs.Proposal{prop}
		bl.HighQcs = []*lib.QuorumCertificate{hq}
		bl.Targets = [][]int{at}
	}
	g.script("byz(D=%d,%s)", d, desc)
	g.class("byzlead:" + variant)
	g.runSeg(segOpt{want: d, p: 1, pm: 0, lead: bl})
	for _, c := range bl.PCCerts {
		if c != nil {
			g.stash = append(g.stash, c)
		}
	}
	g.res.Excluded[KFStripBlock] += bl.SkippedCM
	return bl
}

// ---------------------------------------------------------------------------------------------------------------
// families

func (g *gen) maybeBump(oneIn int) {
	if rapid.IntRange(0, oneIn-1).Draw(g.t, "bump?") == 0 {
		g.bump()
	}
}

func (g *gen) maybeDup() {
	if g.opt.AllowDupReset && rapid.IntRange(0, 24).Draw(g.t, "dup?") == 0 {
		g.dupReset()
	}
}

// F1: lossy / reordering network, silent or honest-looking Byzantine validators.
func (g *gen) famLossy() {
	k := rapid.IntRange(2, 5).Draw(g.t, "rounds")
	for i := 0; i < k && !g.done(); i++ {
		if rapid.IntRange(0, 2).Draw(g.t, "part?") == 0 {
			g.partition()
		} else {
			g.lossy()
		}
		g.maybeBump(5)
		g.maybeDup()
	}
}

// F2 / F6: equivocating leader, Byzantine validators vote for both proposals.
func (g *gen) famEquivocate() {
	g.classIf(!g.pl.ok, "plan:no-seed")
	if g.pl.bump {
		g.bump()
	}
	for i := g.pl.k1; i > 0 && !g.done(); i-- {
		g.burn()
	}
	d, ok := g.untilLeadable(2)
	if !ok {
		g.class("byz-not-electable")
		g.lossy()
		return
	}
	g.byzRound(d, "equivocate")
	g.maybeBump(6)
	g.maybeDup()
}

// F3: withheld certificate, later re-proposed as HighQc, with / without a root bump in between, against replicas
// locked on something else. The views are planned (k1 burnt rounds, withhold, [bump], k2 burnt rounds, lock round
// with partial commit, k3 burnt rounds, re-proposal) and the sortition seed was searched so that the plan is feasible.
func (g *gen) famWithheld() {
	g.classIf(!g.pl.ok, "plan:no-seed")
	if g.pl.preLock {
		// A gets a +2/3 PROPOSE_VOTE certificate and is locked by some in round 0, nobody commits; later (lock round below)
		// the same block is certified again in a later round - between the two the Byzantine leader's certificate for B
		g.class("f3:same-block-certified-twice")
		g.lockRoundN(false, true)
	}
	for i := g.pl.k1; i > 0 && !g.done(); i-- {
		g.burn()
	}
	d, ok := g.untilLeadable(2)
	if !ok {
		g.class("byz-not-electable")
		g.lossy()
		return
	}
	g.byzRound(d, "withhold")
	if g.pl.bump {
		g.script("bump-all")
		g.bumps++
		g.s.RootBumpAll()
	}
	for i := g.pl.k2; i > 0 && !g.done(); i-- {
		g.burn()
	}
	if g.done() {
		return
	}
	if d2, ok2 := g.leadable(); g.pl.byzLock && ok2 {
		g.byzRound(d2, "lock-same-block")
	} else if g.pl.preLock && ok2 && g.someLock() != nil {
		g.byzRound(d2, "relock-same-block")
	} else {
		g.lockRound(rapid.IntRange(0, 5).Draw(g.t, "allLock") > 0)
	}
	if !g.pl.preLock {
		if rapid.IntRange(0, 7).Draw(g.t, "bumpAfterLock") == 0 {
			g.bump()
		}
		g.maybeDup()
	}
	for i := g.pl.k3; i > 0 && !g.done(); i-- {
		g.burn()
	}
	if !g.pl.preLock && rapid.IntRange(0, 4).Draw(g.t, "correctLeaderNext") < 2 && g.lockedLeaderRound() {
		return
	}
	d, ok = g.untilLeadable(2)
	if !ok {
		g.class("byz-not-electable")
		return
	}
	if g.pl.preLock {
		g.preferWithheld = true
		g.byzRound(d, "stale")
		return
	}
	g.byzRound(d, rapid.SampledFrom([]string{"stale", "stale", "stale", "stale", "fresh", "partialhqc", "election-cert-hqc", "election-cert-hqc", "other-phase-hqc", "reused-sig-hqc", "reused-sig-hqc"}).Draw(g.t, "unlockWith"))
}

// F4: partial commit delivery, the rest must re-commit the same block in later rounds under leader changes.
func (g *gen) famPartialCommit() {
	for i := rapid.IntRange(0, 1).Draw(g.t, "pre"); i > 0 && !g.done(); i-- {
		if rapid.Bool().Draw(g.t, "prePart") {
			g.partition()
		} else {
			g.lossy()
		}
	}
	if rapid.IntRange(0, 2).Draw(g.t, "conflictingLocks") == 0 {
		g.lockRoundN(false, true)
		if !g.done() {
			g.secondLock()
		}
		if rapid.Bool().Draw(g.t, "lockedLeaderNext") && !g.done() {
			g.catchUp()
			if !g.done() {
				g.lockedLeaderRound()
			}
		}
	} else {
		g.lockRound(rapid.Bool().Draw(g.t, "allLock"))
	}
	g.maybeBump(3)
	g.maybeDup()
	k := rapid.IntRange(1, 3).Draw(g.t, "after")
	for i := 0; i < k && !g.done(); i++ {
		switch rapid.IntRange(0, 3).Draw(g.t, "afterKind") {
		case 0:
			g.lossy()
		case 1:
			if d, ok := g.leadable(); ok && len(g.byz) > 0 {
				g.byzRound(d, rapid.SampledFrom([]string{"fresh", "stale", "partialhqc", "wrongphase", "equivocate", "election-cert-hqc", "other-phase-hqc", "reused-sig-hqc"}).Draw(g.t, "byzKind"))
			} else {
				g.clean(false)
			}
		default:
			g.clean(false)
		}
		g.maybeBump(6)
	}
}

// F7 (used by C15): correct replicas end up locked on different blocks at different views - a few lock X in a correct
// leader's round, then, cut off from them, the others (Byzantine validators taking part) lock a fresh Y in a later round.
func (g *gen) famConflictingLocks() {
	if rapid.IntRange(0, 3).Draw(g.t, "pre") == 0 && !g.done() {
		g.lossy()
	}
	g.lockRoundN(false, true)
	if !g.done() && !g.secondLock() {
		g.class("second-lock-not-possible")
	}
	g.maybeBump(8)
	switch rapid.IntRange(0, 5).Draw(g.t, "afterConflict") {
	case 0:
		if !g.done() {
			g.partition()
		}
	default:
		g.catchUp()
		if !g.done() && !g.lockedLeaderRound() {
			g.clean(false)
		}
	}
}

// F5: replay - heavy noise (old messages of any round/phase/root height re-sent, certificates re-signed inside
// new Byzantine messages) over a mix of the other segments.
func (g *gen) famReplay() {
	k := rapid.IntRange(2, 5).Draw(g.t, "rounds")
	for i := 0; i < k && !g.done(); i++ {
		switch rapid.IntRange(0, 5).Draw(g.t, "kind") {
		case 0:
			g.lockRound(rapid.Bool().Draw(g.t, "allLock"))
		case 1:
			if d, ok := g.leadable(); ok {
				g.byzRound(d, rapid.SampledFrom([]string{"withhold", "stale", "fresh", "equivocate", "wrongphase", "partialhqc", "election-cert-hqc", "other-phase-hqc", "reused-sig-hqc"}).Draw(g.t, "byzKind"))
			} else {
				g.lossy()
			}
		case 2:
			g.burn()
		case 3:
			g.partition()
		case 4:
			if !g.secondLock() {
				g.lossy()
			}
		default:
			g.lossy()
		}
		g.maybeBump(4)
		g.maybeDup()
	}
}

// finish: closing rounds in which the network behaves, so that whatever the scenario set up can play out.
func (g *gen) finish() {
	k := rapid.IntRange(0, 2).Draw(g.t, "finish")
	for i := 0; i < k && len(g.activeHonest()) > 0 && !g.cut(); i++ {
		if g.roundCap() {
			break
		}
		g.clean(rapid.Bool().Draw(g.t, "gossip"))
	}
}
