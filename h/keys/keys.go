// Package keys derives deterministic key material from small integers so that no generated case touches crypto/rand.
package keys

import (
	"crypto/ed25519"
	"crypto/sha256"
	"encoding/binary"
	"sync"

	"github.com/canopy-network/canopy/lib/crypto"
)

func seed(kind string, i int) []byte {
	b := make([]byte, 8)
	binary.BigEndian.PutUint64(b, uint64(i))
	h := sha256.Sum256(append([]byte("verif-key-"+kind+"-"), b...))
	return h[:]
}

var (
	mu    sync.Mutex
	cache = map[string]crypto.PrivateKeyI{}
)

func memo(kind string, i int, mk func() crypto.PrivateKeyI) crypto.PrivateKeyI {
	mu.Lock()
	defer mu.Unlock()
	k := kind + string(rune(i))
	if v, ok := cache[k]; ok {
		return v
	}
	v := mk()
	cache[k] = v
	return v
}

// BLS returns the i-th deterministic BLS12-381 private key.
func BLS(i int) crypto.PrivateKeyI {
	return memo("bls", i, func() crypto.PrivateKeyI {
		s := seed("bls", i)
		s[0] &= 0x3f // keep the scalar below the group order
		k, err := crypto.BytesToBLS12381PrivateKey(s)
		if err != nil {
			panic(err)
		}
		return k
	})
}

// Ed returns the i-th deterministic ed25519 private key.
func Ed(i int) crypto.PrivateKeyI {
	return memo("ed", i, func() crypto.PrivateKeyI {
		return crypto.BytesToED25519Private(ed25519.NewKeyFromSeed(seed("ed", i)))
	})
}

// Secp returns the i-th deterministic secp256k1 private key.
func Secp(i int) crypto.PrivateKeyI {
	return memo("secp", i, func() crypto.PrivateKeyI {
		k, err := crypto.BytesToSECP256K1Private(seed("secp", i))
		if err != nil {
			panic(err)
		}
		return k
	})
}

// Eth returns the i-th deterministic Ethereum-style secp256k1 private key.
func Eth(i int) crypto.PrivateKeyI {
	return memo("eth", i, func() crypto.PrivateKeyI {
		k, err := crypto.BytesToEthSECP256K1Private(seed("eth", i))
		if err != nil {
			panic(err)
		}
		return k
	})
}

// Kind selects a key family by index: 0 BLS, 1 ed25519, 2 secp256k1, 3 eth-secp256k1.
func Kind(kind, i int) crypto.PrivateKeyI {
	switch kind % 4 {
	case 0:
		return BLS(i)
	case 1:
		return Ed(i)
	case 2:
		return Secp(i)
	default:
		return Eth(i)
	}
}
