// Package p2psim is the shared harness for the transport properties (C17 encrypted transport, C18
// multiplexed peer messaging). It contains
//
//   - Wire / Conn: an in-memory net.Conn whose two directions are byte queues the harness can hold,
//     inspect, rewrite and feed frame by frame (deterministic fault injection without relay goroutines);
//   - RawLeg: an independent implementation of the wire protocol of p2p/encrypt.go (plaintext
//     ephemeral-key message, HKDF key derivation, 1044-byte ChaCha20-Poly1305 frames with counter
//     nonces) with every step under harness control: the man-in-the-middle and the raw attacker peer;
//   - frame fault descriptors (flip, drop, duplicate, swap, replay, truncate, reflect);
//   - helpers that join real p2p.P2P nodes over net.Pipe and a raw attacker peer that completes an
//     honest handshake and then writes crafted envelopes.
//
// Nothing here draws randomness: every choice is passed in by the caller (rapid draws).
package p2psim

import (
	"errors"
	"io"
	"net"
	"sync"
	"time"
)

// Wire is one direction of a connection: bytes written by one party, read by the other.
// In hold mode written bytes are parked in Held until the harness moves them (possibly altered) to
// the readable side with Feed.
type Wire struct {
	mu      sync.Mutex
	cond    *sync.Cond
	chunks  [][]byte // visible to the reader: a queue of written blocks (no large reallocation)
	off     int      // read offset into chunks[0]
	pending int      // bytes visible and not yet read
	limit   int      // >0: a writer blocks while more than limit bytes are pending (bounded buffer)
	held    []byte   // written while hold was on, not yet visible
	hold    bool
	strict  bool   // a read that would block fails with ErrStarved instead
	wclosed bool   // writer finished: reader gets EOF after draining readable
	rclosed bool   // reader closed: writes fail
	log     []byte // every byte the writer ever wrote (transcript), unless nolog
	nolog   bool
	name    string
}

// NewWire creates an empty pass-through wire.
func NewWire(name string) *Wire {
	w := &Wire{name: name}
	w.cond = sync.NewCond(&w.mu)
	return w
}

// SetHold switches hold mode. Turning hold off does not release what is held.
func (w *Wire) SetHold(h bool) {
	w.mu.Lock()
	w.hold = h
	w.mu.Unlock()
}

// SetStrict makes reads that would block fail with ErrStarved. Used once all writers are known to
// be finished: a reader that still waits for bytes has lost some (a definite verdict, no timeout).
func (w *Wire) SetStrict(on bool) {
	w.mu.Lock()
	w.strict = on
	w.mu.Unlock()
	w.cond.Broadcast()
}

// ErrStarved is returned by a strict wire when the reader asks for bytes that nobody will write.
var ErrStarved = errors.New("p2psim: reader waits for bytes that were never written (stream starved)")

// StopLog stops recording the transcript and drops what was recorded (long streams).
func (w *Wire) StopLog() {
	w.mu.Lock()
	w.nolog, w.log = true, nil
	w.mu.Unlock()
}

// TakeHeld removes and returns everything written while held.
func (w *Wire) TakeHeld() []byte {
	w.mu.Lock()
	defer w.mu.Unlock()
	b := w.held
	w.held = nil
	return b
}

// Feed makes bytes visible to the reader (harness side injection).
func (w *Wire) Feed(b []byte) {
	w.mu.Lock()
	w.push(b)
	w.mu.Unlock()
	w.cond.Broadcast()
}

func (w *Wire) push(b []byte) {
	if len(b) > 0 {
		w.chunks = append(w.chunks, append([]byte(nil), b...))
		w.pending += len(b)
	}
}

// SetLimit bounds the buffer: writers block while more than n bytes are pending (0 = unbounded).
func (w *Wire) SetLimit(n int) {
	w.mu.Lock()
	w.limit = n
	w.mu.Unlock()
	w.cond.Broadcast()
}

// CloseWrite marks the end of the stream: the reader sees EOF after the readable bytes.
func (w *Wire) CloseWrite() {
	w.mu.Lock()
	w.wclosed = true
	w.mu.Unlock()
	w.cond.Broadcast()
}

// CloseRead makes subsequent reads and writes fail.
func (w *Wire) CloseRead() {
	w.mu.Lock()
	w.rclosed = true
	w.mu.Unlock()
	w.cond.Broadcast()
}

// Log returns a copy of everything the writer wrote so far.
func (w *Wire) Log() []byte {
	w.mu.Lock()
	defer w.mu.Unlock()
	return append([]byte(nil), w.log...)
}

func (w *Wire) write(p []byte) (int, error) {
	w.mu.Lock()
	defer w.mu.Unlock()
	if w.rclosed || w.wclosed {
		return 0, io.ErrClosedPipe
	}
	for w.limit > 0 && !w.hold && w.pending > w.limit && !w.rclosed && !w.wclosed {
		w.cond.Wait()
	}
	if w.rclosed || w.wclosed {
		return 0, io.ErrClosedPipe
	}
	if !w.nolog {
		w.log = append(w.log, p...)
	}
	if w.hold {
		w.held = append(w.held, p...)
		return len(p), nil
	}
	w.push(p)
	w.cond.Broadcast()
	return len(p), nil
}

func (w *Wire) read(p []byte) (int, error) {
	w.mu.Lock()
	defer w.mu.Unlock()
	for {
		if w.rclosed {
			return 0, io.ErrClosedPipe
		}
		if len(w.chunks) > 0 {
			n := 0
			for n < len(p) && len(w.chunks) > 0 {
				k := copy(p[n:], w.chunks[0][w.off:])
				n += k
				w.off += k
				w.pending -= k
				if w.off == len(w.chunks[0]) {
					w.chunks[0] = nil
					w.chunks = w.chunks[1:]
					w.off = 0
				}
			}
			if len(w.chunks) == 0 {
				w.chunks = nil
			}
			if w.limit > 0 {
				w.cond.Broadcast()
			}
			return n, nil
		}
		if w.wclosed {
			return 0, io.EOF
		}
		if len(p) == 0 {
			return 0, nil
		}
		if w.strict {
			return 0, ErrStarved
		}
		w.cond.Wait()
	}
}

// Conn is a net.Conn made of two wires. Writes never block (unbounded queue); reads block until
// data, EOF or close. Deadlines are accepted and ignored: the 1 s per-step handshake timeouts and
// the read/write timeouts of the real code are wall-clock defences that are not part of the
// properties checked here, and ignoring them keeps verdicts independent of machine load. Every
// scenario is closed causally instead (a party that fails closes its write side).
type Conn struct {
	In, Out *Wire
	once    sync.Once
	local   string
	remote  string
}

type addr string

func (a addr) Network() string { return "sim" }
func (a addr) String() string  { return string(a) }

// Read implements net.Conn.
func (c *Conn) Read(p []byte) (int, error) { return c.In.read(p) }

// Write implements net.Conn.
func (c *Conn) Write(p []byte) (int, error) { return c.Out.write(p) }

// Close closes both directions (peer sees EOF, local reads fail).
func (c *Conn) Close() error {
	c.once.Do(func() {
		c.Out.CloseWrite()
		c.In.CloseRead()
	})
	return nil
}

// CloseWrite half-closes: the peer sees EOF after what was written.
func (c *Conn) CloseWrite() { c.Out.CloseWrite() }

func (c *Conn) LocalAddr() net.Addr                { return addr(c.local) }
func (c *Conn) RemoteAddr() net.Addr               { return addr(c.remote) }
func (c *Conn) SetDeadline(t time.Time) error      { return nil }
func (c *Conn) SetReadDeadline(t time.Time) error  { return nil }
func (c *Conn) SetWriteDeadline(t time.Time) error { return nil }

// Link is a bidirectional connection between party X and party Y.
type Link struct {
	XY, YX *Wire // X->Y and Y->X
	X, Y   *Conn
}

// NewLink creates a connected pair of in-memory conns.
func NewLink(x, y string) *Link {
	l := &Link{XY: NewWire(x + ">" + y), YX: NewWire(y + ">" + x)}
	l.X = &Conn{In: l.YX, Out: l.XY, local: x, remote: y}
	l.Y = &Conn{In: l.XY, Out: l.YX, local: y, remote: x}
	return l
}

// NewBulkLink is NewLink without transcripts (for connections that carry hundreds of megabytes).
func NewBulkLink(x, y string) *Link {
	l := NewLink(x, y)
	l.XY.nolog, l.YX.nolog = true, true
	l.XY.limit, l.YX.limit = 4<<20, 4<<20 // a few packets of run-ahead, no per-frame rendezvous
	return l
}

// ErrTimeout is returned by WaitFor helpers; a timeout is never a property violation.
var ErrTimeout = errors.New("p2psim: liveness wait timed out (inconclusive)")

// WaitFor polls cond until it holds or the budget is spent. Callers must treat false as
// INCONCLUSIVE, never as a violation.
func WaitFor(budget time.Duration, cond func() bool) bool {
	deadline := time.Now().Add(budget)
	sleep := 200 * time.Microsecond
	for {
		if cond() {
			return true
		}
		if time.Now().After(deadline) {
			return cond()
		}
		time.Sleep(sleep)
		if sleep < 20*time.Millisecond {
			sleep *= 2
		}
	}
}
