package p2psim

import (
	"crypto/cipher"
	"crypto/ed25519"
	"crypto/sha256"
	"encoding/binary"
	"fmt"
	"io"
	"net"

	"github.com/canopy-network/canopy/lib"
	"github.com/canopy-network/canopy/lib/crypto"
	"github.com/canopy-network/canopy/p2p"
)

// Wire constants of p2p/encrypt.go + lib/crypto/aead.go, restated independently.
const (
	MaxChunk  = 1024                // plaintext bytes per frame
	PlainSize = 4 + MaxChunk        // little-endian length header + chunk (+ padding)
	TagSize   = 16                  // Poly1305 tag
	FrameSize = PlainSize + TagSize // 1044 bytes on the wire
)

// ---------------------------------------------------------------- deterministic keys

func seed(kind string, i int) []byte {
	h := sha256.Sum256([]byte(fmt.Sprintf("p2psim/%s/%d", kind, i)))
	return h[:]
}

// EdKey returns the i-th deterministic ed25519 identity key.
func EdKey(i int) crypto.PrivateKeyI {
	return crypto.BytesToED25519Private(ed25519.NewKeyFromSeed(seed("ed", i)))
}

// EdRaw returns the i-th deterministic raw ed25519 private key (used as ephemeral key by RawLeg).
func EdRaw(i int) ed25519.PrivateKey { return ed25519.NewKeyFromSeed(seed("eph", i)) }

// BLSKey returns the i-th deterministic BLS12-381 identity key (the production node key type).
func BLSKey(i int) crypto.PrivateKeyI {
	s := seed("bls", i)
	s[0] &= 0x3f // below the group order
	k, err := crypto.BytesToBLS12381PrivateKey(s)
	if err != nil {
		panic(err)
	}
	return k
}

// SecpKey returns the i-th deterministic secp256k1 identity key.
func SecpKey(i int) crypto.PrivateKeyI {
	k, err := crypto.BytesToSECP256K1Private(seed("secp", i))
	if err != nil {
		panic(err)
	}
	return k
}

// EthKey returns the i-th deterministic eth-style secp256k1 identity key.
func EthKey(i int) crypto.PrivateKeyI {
	k, err := crypto.BytesToEthSECP256K1Private(seed("eth", i))
	if err != nil {
		panic(err)
	}
	return k
}

// KeyKinds lists the identity key types NewPublicKeyFromBytes understands by length.
var KeyKinds = []string{"bls", "ed25519", "secp256k1", "ethsecp256k1"}

// Key returns the i-th deterministic key of a kind.
func Key(kind string, i int) crypto.PrivateKeyI {
	switch kind {
	case "bls":
		return BLSKey(i)
	case "ed25519":
		return EdKey(i)
	case "secp256k1":
		return SecpKey(i)
	case "ethsecp256k1":
		return EthKey(i)
	}
	panic("unknown key kind " + kind)
}

// Meta builds an unsigned PeerMeta.
func Meta(network, chain uint64) *lib.PeerMeta {
	return &lib.PeerMeta{NetworkId: network, ChainId: chain}
}

// ---------------------------------------------------------------- length-prefixed plaintext

// WriteLP writes a 4-byte big-endian length prefix and the body in ONE Write call (as the real
// sendLengthPrefixed does).
func WriteLP(c io.Writer, body []byte) error {
	b := make([]byte, 4+len(body))
	binary.BigEndian.PutUint32(b, uint32(len(body)))
	copy(b[4:], body)
	_, err := c.Write(b)
	return err
}

// ReadLP reads one length-prefixed message.
func ReadLP(c io.Reader) ([]byte, error) {
	var p [4]byte
	if _, err := io.ReadFull(c, p[:]); err != nil {
		return nil, err
	}
	n := binary.BigEndian.Uint32(p[:])
	if n > 64<<20 {
		return nil, fmt.Errorf("p2psim: absurd length prefix %d", n)
	}
	b := make([]byte, n)
	if _, err := io.ReadFull(c, b); err != nil {
		return nil, err
	}
	return b, nil
}

// LP returns prefix+body as bytes.
func LP(body []byte) []byte {
	b := make([]byte, 4+len(body))
	binary.BigEndian.PutUint32(b, uint32(len(body)))
	copy(b[4:], body)
	return b
}

func mustMarshal(m any) []byte {
	b, err := lib.Marshal(m)
	if err != nil {
		panic(err)
	}
	return b
}

// EphMsg is the plaintext key-swap message body.
func EphMsg(pub []byte) []byte { return mustMarshal(&crypto.ProtoPubKey{Pubkey: pub}) }

// ParseEph extracts the ephemeral key from a key-swap message body.
func ParseEph(body []byte) ([]byte, error) {
	m := new(crypto.ProtoPubKey)
	if err := lib.Unmarshal(body, m); err != nil {
		return nil, err
	}
	return m.Pubkey, nil
}

// SigMsg is the (encrypted) signature-swap message body.
func SigMsg(pub, sig []byte) []byte {
	return mustMarshal(&lib.Signature{PublicKey: pub, Signature: sig})
}

// MetaMsg is the (encrypted) meta-swap message body.
func MetaMsg(m *lib.PeerMeta) []byte { return mustMarshal(m) }

// ---------------------------------------------------------------- RawLeg

// RawLeg is one side of the transport protocol under full harness control. Key agreement uses the
// repository's exported SharedSecret/HKDFSecretsAndChallenge (the attacker knows the code and
// derives what an honest party would derive from the same inputs); framing, nonces and message
// layout are implemented here independently of p2p/encrypt.go.
type RawLeg struct {
	C         net.Conn
	EphPriv   ed25519.PrivateKey
	SentEph   []byte // the ephemeral key bytes we put on the wire
	PeerEph   []byte // the ephemeral key bytes received
	Send      cipher.AEAD
	Recv      cipher.AEAD
	SendCtr   uint64
	RecvCtr   uint64
	Challenge [32]byte
	KeysKnown bool
	rbuf      []byte // decrypted, not yet consumed bytes
	// LastPad records the padding of the last received frame (bytes after the chunk).
	LastPad []byte
	// LastRaw holds the raw frames consumed by the last RecvMsg call.
	LastRaw [][]byte
}

// NewRawLeg wraps a conn.
func NewRawLeg(c net.Conn) *RawLeg { return &RawLeg{C: c} }

// SendEph sends a key-swap message carrying pub.
func (l *RawLeg) SendEph(pub []byte) error {
	l.SentEph = append([]byte(nil), pub...)
	return WriteLP(l.C, EphMsg(pub))
}

// RecvEph receives the peer's key-swap message.
func (l *RawLeg) RecvEph() ([]byte, error) {
	b, err := ReadLP(l.C)
	if err != nil {
		return nil, err
	}
	k, err := ParseEph(b)
	if err != nil {
		return nil, err
	}
	l.PeerEph = k
	return k, nil
}

// Derive computes the session keys exactly as an honest party holding priv and having sent
// l.SentEph would.
func (l *RawLeg) Derive(priv ed25519.PrivateKey) error {
	secret, err := crypto.SharedSecret(l.PeerEph, priv)
	if err != nil {
		return err
	}
	s, r, ch, err := crypto.HKDFSecretsAndChallenge(secret, l.SentEph, l.PeerEph)
	if err != nil {
		return err
	}
	l.EphPriv, l.Send, l.Recv, l.Challenge, l.KeysKnown = priv, s, r, *ch, true
	return nil
}

// DeriveFromSecret computes the session keys from a given Diffie-Hellman output (used when the
// output is predictable, e.g. all-zero for small-order points).
func (l *RawLeg) DeriveFromSecret(secret []byte) error {
	s, r, ch, err := crypto.HKDFSecretsAndChallenge(secret, l.SentEph, l.PeerEph)
	if err != nil {
		return err
	}
	l.Send, l.Recv, l.Challenge, l.KeysKnown = s, r, *ch, true
	return nil
}

func nonce(ctr uint64) []byte {
	n := make([]byte, 12)
	binary.LittleEndian.PutUint64(n[4:], ctr)
	return n
}

// Seal builds one wire frame with an explicit length field, chunk and counter.
func Seal(a cipher.AEAD, ctr uint64, lenField uint32, chunk []byte) []byte {
	plain := make([]byte, PlainSize)
	binary.LittleEndian.PutUint32(plain, lenField)
	copy(plain[4:], chunk)
	return a.Seal(nil, nonce(ctr), plain, nil)
}

// Open decrypts one wire frame under an explicit counter.
func Open(a cipher.AEAD, ctr uint64, frame []byte) (chunk, pad []byte, err error) {
	plain, err := a.Open(nil, nonce(ctr), frame, nil)
	if err != nil {
		return nil, nil, err
	}
	n := binary.LittleEndian.Uint32(plain)
	if n > MaxChunk {
		return nil, nil, fmt.Errorf("p2psim: chunk length %d", n)
	}
	return plain[4 : 4+n], plain[4+n:], nil
}

// SendFrame encrypts chunk as the next frame and writes it.
func (l *RawLeg) SendFrame(chunk []byte) error {
	f := Seal(l.Send, l.SendCtr, uint32(len(chunk)), chunk)
	l.SendCtr++
	_, err := l.C.Write(f)
	return err
}

// SendBytes writes a byte stream as frames, chunked like EncryptedConn.Write.
func (l *RawLeg) SendBytes(b []byte) error {
	for len(b) > 0 {
		n := len(b)
		if n > MaxChunk {
			n = MaxChunk
		}
		if err := l.SendFrame(b[:n]); err != nil {
			return err
		}
		b = b[n:]
	}
	return nil
}

// SendMsg sends one length-prefixed message through the encrypted channel.
func (l *RawLeg) SendMsg(body []byte) error { return l.SendBytes(LP(body)) }

// ReadRawFrame reads one 1044-byte frame without decrypting it.
func (l *RawLeg) ReadRawFrame() ([]byte, error) {
	f := make([]byte, FrameSize)
	if _, err := io.ReadFull(l.C, f); err != nil {
		return nil, err
	}
	return f, nil
}

// WriteRaw writes bytes to the wire verbatim.
func (l *RawLeg) WriteRaw(b []byte) error { _, err := l.C.Write(b); return err }

func (l *RawLeg) fill() error {
	f, err := l.ReadRawFrame()
	if err != nil {
		return err
	}
	chunk, pad, err := Open(l.Recv, l.RecvCtr, f)
	if err != nil {
		return err
	}
	l.RecvCtr++
	l.LastPad = pad
	l.LastRaw = append(l.LastRaw, f)
	l.rbuf = append(l.rbuf, chunk...)
	return nil
}

// RecvBytes returns exactly n decrypted stream bytes.
func (l *RawLeg) RecvBytes(n int) ([]byte, error) {
	for len(l.rbuf) < n {
		if err := l.fill(); err != nil {
			return nil, err
		}
	}
	b := l.rbuf[:n:n]
	l.rbuf = l.rbuf[n:]
	return b, nil
}

// RecvMsg receives one length-prefixed message from the encrypted channel.
func (l *RawLeg) RecvMsg() ([]byte, error) {
	l.LastRaw = nil
	p, err := l.RecvBytes(4)
	if err != nil {
		return nil, err
	}
	n := binary.BigEndian.Uint32(p)
	if n > 64<<20 {
		return nil, fmt.Errorf("p2psim: absurd inner length %d", n)
	}
	return l.RecvBytes(int(n))
}

// RecvSig receives and parses the peer's signature-swap message.
func (l *RawLeg) RecvSig() (*lib.Signature, error) {
	b, err := l.RecvMsg()
	if err != nil {
		return nil, err
	}
	s := new(lib.Signature)
	if e := lib.Unmarshal(b, s); e != nil {
		return nil, e
	}
	return s, nil
}

// RecvMeta receives and parses the peer's meta-swap message.
func (l *RawLeg) RecvMeta() (*lib.PeerMeta, error) {
	b, err := l.RecvMsg()
	if err != nil {
		return nil, err
	}
	m := new(lib.PeerMeta)
	if e := lib.Unmarshal(b, m); e != nil {
		return nil, e
	}
	return m, nil
}

// ---------------------------------------------------------------- honest endpoint runner

// HSResult is the outcome of one real p2p.NewHandshake call.
type HSResult struct {
	EC    *p2p.EncryptedConn
	Err   error
	Panic any
}

// OK reports a successful handshake.
func (r HSResult) OK() bool { return r.Err == nil && r.Panic == nil && r.EC != nil }

// StartHandshake runs the real p2p.NewHandshake on conn in a goroutine. On failure the conn is
// closed (so the other side's reads end causally, without timeouts).
func StartHandshake(conn net.Conn, meta *lib.PeerMeta, key crypto.PrivateKeyI) <-chan HSResult {
	ch := make(chan HSResult, 1)
	go func() {
		var res HSResult
		defer func() {
			if p := recover(); p != nil {
				res.Panic = p
				res.EC = nil
			}
			if !res.OK() {
				_ = conn.Close()
			}
			ch <- res
		}()
		ec, err := p2p.NewHandshake(conn, meta, key)
		if err != nil {
			res.Err = err
			return
		}
		res.EC = ec
	}()
	return ch
}
