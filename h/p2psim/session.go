package p2psim

import (
	"fmt"
	"time"

	"github.com/canopy-network/canopy/lib"
	"github.com/canopy-network/canopy/lib/crypto"
	"github.com/canopy-network/canopy/p2p"
)

// Session is an established encrypted connection between two honest endpoints A (Link.X) and
// B (Link.Y), both produced by the real p2p.NewHandshake.
type Session struct {
	L    *Link
	A, B *p2p.EncryptedConn
	// HsAB / HsBA are the handshake frames (after the plaintext key-swap message) each direction carried.
	HsAB, HsBA [][]byte
}

// Watchdog is the budget after which a scenario that should finish causally is declared
// inconclusive (never a violation).
const Watchdog = 60 * time.Second

// Establish performs an honest handshake over a fresh in-memory link.
func Establish(keyA, keyB crypto.PrivateKeyI, metaA, metaB *lib.PeerMeta) (*Session, HSResult, HSResult, error) {
	l := NewLink("A", "B")
	ca, cb := StartHandshake(l.X, metaA, keyA), StartHandshake(l.Y, metaB, keyB)
	var ra, rb HSResult
	t := time.NewTimer(Watchdog)
	defer t.Stop()
	for i := 0; i < 2; i++ {
		select {
		case ra = <-ca:
			ca = nil
		case rb = <-cb:
			cb = nil
		case <-t.C:
			_ = l.X.Close()
			_ = l.Y.Close()
			return nil, ra, rb, ErrTimeout
		}
	}
	if !ra.OK() || !rb.OK() {
		return nil, ra, rb, fmt.Errorf("handshake failed: A=%v/%v B=%v/%v", ra.Err, ra.Panic, rb.Err, rb.Panic)
	}
	s := &Session{L: l, A: ra.EC, B: rb.EC}
	s.HsAB = handshakeFrames(l.XY.Log())
	s.HsBA = handshakeFrames(l.YX.Log())
	return s, ra, rb, nil
}

// handshakeFrames strips the plaintext key-swap message from a direction's transcript and returns
// the encrypted frames that followed.
func handshakeFrames(log []byte) [][]byte {
	if len(log) < 4 {
		return nil
	}
	n := int(log[0])<<24 | int(log[1])<<16 | int(log[2])<<8 | int(log[3])
	if len(log) < 4+n {
		return nil
	}
	fr, _ := SplitFrames(log[4+n:])
	return fr
}

// Close tears the session down.
func (s *Session) Close() {
	_ = s.A.Close()
	_ = s.B.Close()
}
