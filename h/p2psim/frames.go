package p2psim

import (
	"fmt"
)

// SplitFrames cuts a ciphertext stream into 1044-byte frames; rest is a trailing partial frame.
func SplitFrames(b []byte) (frames [][]byte, rest []byte) {
	for len(b) >= FrameSize {
		frames = append(frames, b[:FrameSize:FrameSize])
		b = b[FrameSize:]
	}
	return frames, b
}

// ChunkPlan returns, for a sequence of Write sizes, the plaintext length carried by each frame the
// real EncryptedConn.Write produces (a zero-size write produces no frame).
func ChunkPlan(writes []int) (perFrame []int) {
	for _, s := range writes {
		for s > 0 {
			c := s
			if c > MaxChunk {
				c = MaxChunk
			}
			perFrame = append(perFrame, c)
			s -= c
		}
	}
	return
}

// Fault kinds applied to the data frames of one direction.
const (
	FlipHeader = "flip-header" // a bit of the encrypted length header (bytes 0..3)
	FlipBody   = "flip-body"   // a bit of the encrypted chunk/padding
	FlipTag    = "flip-tag"    // a bit of the Poly1305 tag (last 16 bytes)
	Drop       = "drop"        // frame removed
	Duplicate  = "duplicate"   // frame delivered twice in a row
	Swap       = "swap"        // frame exchanged with its successor
	Replay     = "replay"      // an earlier frame of the same direction (incl. handshake frames) inserted
	Truncate   = "truncate"    // stream ends Arg bytes into the frame
	Reflect    = "reflect"     // a frame of the opposite direction inserted
	Garbage    = "garbage"     // frame replaced by a constant pattern
)

// FaultKinds in enumeration order.
var FaultKinds = []string{FlipHeader, FlipBody, FlipTag, Drop, Duplicate, Swap, Replay, Truncate, Reflect, Garbage}

// Fault is one frame-level fault. Pos indexes the data frames of the direction; Arg is the bit
// (flips, relative to the region), the byte offset (truncate), the source frame index (replay: into
// earlier=handshake frames followed by data frames before Pos; reflect: into the opposite
// direction's frames, handshake frames first) or the pattern byte (garbage).
type Fault struct {
	Kind string
	Pos  int
	Arg  int
}

func (f Fault) String() string { return fmt.Sprintf("%s(frame=%d,arg=%d)", f.Kind, f.Pos, f.Arg) }

// Applicable reports whether the fault can be applied to n data frames.
func (f Fault) Applicable(n int) bool {
	if f.Pos < 0 || f.Pos >= n {
		return false
	}
	if f.Kind == Swap {
		return f.Pos+1 < n
	}
	return true
}

// Apply returns the frame sequence after the fault and the fault point: the index of the first data
// frame that the receiver must NOT deliver (all frames before it are untouched and in order).
// hs are the handshake frames that preceded the data frames in the same direction, other the
// frames (handshake first) of the opposite direction. truncated reports that the stream ends inside
// the last returned element.
func (f Fault) Apply(frames, hs, other [][]byte) (out [][]byte, faultPoint int) {
	cp := func(b []byte) []byte { return append([]byte(nil), b...) }
	n := len(frames)
	p := f.Pos
	out = make([][]byte, 0, n+1)
	out = append(out, frames[:p]...)
	switch f.Kind {
	case FlipHeader, FlipBody, FlipTag:
		x := cp(frames[p])
		var lo, size int
		switch f.Kind {
		case FlipHeader:
			lo, size = 0, 4
		case FlipBody:
			lo, size = 4, MaxChunk
		default:
			lo, size = PlainSize, TagSize
		}
		bit := f.Arg % (size * 8)
		x[lo+bit/8] ^= 1 << uint(bit%8)
		out = append(out, x)
		out = append(out, frames[p+1:]...)
		return out, p
	case Drop:
		out = append(out, frames[p+1:]...)
		return out, p
	case Duplicate:
		out = append(out, frames[p], cp(frames[p]))
		out = append(out, frames[p+1:]...)
		return out, p + 1
	case Swap:
		out = append(out, frames[p+1], frames[p])
		out = append(out, frames[p+2:]...)
		return out, p
	case Replay:
		earlier := append(append([][]byte{}, hs...), frames[:p]...)
		out = append(out, cp(earlier[f.Arg%len(earlier)]))
		out = append(out, frames[p:]...)
		return out, p
	case Truncate:
		out = append(out, cp(frames[p][:f.Arg%FrameSize]))
		return out, p
	case Reflect:
		out = append(out, cp(other[f.Arg%len(other)]))
		out = append(out, frames[p:]...)
		return out, p
	case Garbage:
		x := make([]byte, FrameSize)
		for i := range x {
			x[i] = byte(f.Arg)
		}
		out = append(out, x)
		out = append(out, frames[p+1:]...)
		return out, p
	}
	panic("unknown fault kind " + f.Kind)
}

// JoinFrames concatenates frames into a stream.
func JoinFrames(frames [][]byte) []byte {
	var b []byte
	for _, f := range frames {
		b = append(b, f...)
	}
	return b
}
