package p2psim

import (
	"fmt"
	"os"
	"strconv"
	"strings"
	"sync/atomic"
)

// Inconclusive counts cases whose liveness wait expired. A few are skipped (rapid draws a
// replacement); when they pile up the whole test binary exits with status 2 and the word
// INCONCLUSIVE - which the ./check driver maps to "inconclusive", never to a violation - instead of
// letting the property-testing library report "too few valid cases" as a test failure.
type Inconclusive struct {
	n atomic.Int64
}

// Hit records one inconclusive case and returns the running count. flush is called before a
// bail-out exit so that the evidence collected so far is written.
func (i *Inconclusive) Hit(why string, flush func()) int64 {
	n := i.n.Add(1)
	checks, _ := strconv.Atoi(os.Getenv("VERIF_CHECKS"))
	if checks <= 0 {
		for _, a := range os.Args {
			if v, ok := strings.CutPrefix(a, "-rapid.checks="); ok {
				checks, _ = strconv.Atoi(v)
			}
		}
	}
	if checks <= 0 {
		checks = 100
	}
	// the property-testing library gives up (and fails the test) after 10 x checks skipped cases:
	// stay well below that
	limit := int64(checks / 5)
	if limit < 3 {
		limit = 3
	}
	if n > limit {
		if flush != nil {
			flush()
		}
		fmt.Printf("INCONCLUSIVE: %d cases hit a liveness budget (last: %s); the machine is too loaded for a verdict - exit 2\n", n, why)
		os.Exit(2)
	}
	return n
}
