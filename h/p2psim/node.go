package p2psim

import (
	"encoding/binary"
	"fmt"
	"net"
	"os"
	"strings"
	"sync"
	"time"

	"github.com/canopy-network/canopy/lib"
	"github.com/canopy-network/canopy/lib/crypto"
	"github.com/canopy-network/canopy/p2p"
	"google.golang.org/protobuf/proto"
	"google.golang.org/protobuf/types/known/anypb"
)

// Limits of p2p/conn.go (read through the add-only hook file p2p/verif_hooks_limits.go so that the
// harness follows the code: 256 MB (SI), 1 MB, 1 MB - 50).
const (
	MaxMessageSize = p2p.VerifMaxMessageSize   // largest assembled message
	MaxPacketSize  = p2p.VerifMaxPacketSize    // largest length prefix the receiver accepts
	MaxDataChunk   = p2p.VerifMaxDataChunkSize // bytes of a message carried by one packet of Send()
)

// AppTopics are the topics that have an application inbox.
var AppTopics = []lib.Topic{lib.Topic_CONSENSUS, lib.Topic_BLOCK, lib.Topic_BLOCK_REQUEST, lib.Topic_TX, lib.Topic_PEERS_RESPONSE, lib.Topic_PEERS_REQUEST}

// HeartbeatEvery is the ping period of a connection (p2p/conn.go heartbeatInterval).
const HeartbeatEvery = p2p.VerifHeartbeatEvery

// Node is a real p2p.P2P object (never Start()ed: no listener, no dialing; peers are joined over net.Pipe).
type Node struct {
	*p2p.P2P
	Key   crypto.PrivateKeyI
	Pub   []byte
	Chain uint64
	Net   uint64
	Log   *RecLog // warnings and errors the node logged (teardown reasons)
}

// NewNode creates a p2p module with the idx-th deterministic BLS key, its peer book in dir.
func NewNode(dir string, idx int, chain uint64) *Node { return NewNodeWith(dir, idx, chain, nil) }

// NewNodeWith is NewNode with a hook to adjust the (default) configuration.
func NewNodeWith(dir string, idx int, chain uint64, adjust func(*lib.Config)) *Node {
	cfg := lib.DefaultConfig()
	cfg.ChainId = chain
	cfg.DataDirPath = dir
	_ = os.MkdirAll(dir, 0o755)
	cfg.ListenAddress = ":0"
	if adjust != nil {
		adjust(&cfg)
	}
	key := BLSKey(idx)
	log := newRecLog()
	return &Node{P2P: p2p.New(key, 100, nil, cfg, log), Key: key, Pub: key.PublicKey().Bytes(), Chain: chain, Net: cfg.NetworkID, Log: log}
}

// IsTimeoutErr reports whether an error text looks like an expired I/O deadline (the real handshake
// allows 1 s per step, which a loaded machine can miss: inconclusive, never a violation).
func IsTimeoutErr(err error) bool {
	if err == nil {
		return false
	}
	s := err.Error()
	return strings.Contains(s, "timeout") || strings.Contains(s, "deadline")
}

func toErr(e lib.ErrorI) error {
	if e == nil {
		return nil
	}
	return e
}

// Join connects a (outbound side) and b (inbound side) with the real AddPeer over net.Pipe.
func Join(a, b *Node) error {
	_, _, err := JoinPipes(a, b)
	return err
}

// JoinPipes is Join returning the two pipe ends (closing one simulates a network failure: both
// connections are then torn down from inside their own receive services).
func JoinPipes(a, b *Node) (net.Conn, net.Conn, error) {
	c1, c2 := newConnPair("a", "b")
	return c1, c2, join(a, b, c1, c2)
}

// UseNetPipe selects net.Pipe (synchronous: every 1044-byte frame is a rendezvous of two goroutines,
// and writes block until read) instead of the buffered in-memory conn for node connections. The
// buffered conn is the default because on an oversubscribed machine the per-frame rendezvous makes a
// 1 MB packet take seconds and trips the node's 3 s heartbeat timeout (a harness artefact). Scenarios
// that need back-pressure (a peer that stops reading) use net.Pipe explicitly.
var UseNetPipe = false

func newConnPair(x, y string) (net.Conn, net.Conn) {
	if UseNetPipe {
		return net.Pipe()
	}
	l := NewBulkLink(x, y)
	return l.X, l.Y
}

func join(a, b *Node, c1, c2 net.Conn) error {
	errs := make(chan error, 2)
	go func() {
		errs <- toErr(a.AddPeer(c1, &lib.PeerInfo{Address: &lib.PeerAddress{PublicKey: b.Pub, NetAddress: "pipe-to-" + fmt.Sprintf("%x", b.Pub[:4]), PeerMeta: &lib.PeerMeta{}}, IsOutbound: true}, false, true))
	}()
	go func() {
		errs <- toErr(b.AddPeer(c2, &lib.PeerInfo{Address: &lib.PeerAddress{PublicKey: a.Pub, NetAddress: "pipe-to-" + fmt.Sprintf("%x", a.Pub[:4]), PeerMeta: &lib.PeerMeta{}}}, false, true))
	}()
	var first error
	for i := 0; i < 2; i++ {
		select {
		case e := <-errs:
			if e != nil && first == nil {
				first = e
				_ = c1.Close()
				_ = c2.Close()
			}
		case <-time.After(Watchdog):
			_ = c1.Close()
			_ = c2.Close()
			return ErrTimeout
		}
	}
	if first != nil {
		return first
	}
	if !a.Has(b.Pub) || !b.Has(a.Pub) {
		return fmt.Errorf("p2psim: AddPeer returned nil but the peer sets are a:%v b:%v", a.Has(b.Pub), b.Has(a.Pub))
	}
	return nil
}

// JoinAs connects a and b like Join, but with caller-chosen peer infos and strictness on both sides
// (what a dial from the peer book / a must-connect dial / an inbound accept hand to AddPeer) and
// returns both AddPeer results separately. The conns are closed when either side fails.
func JoinAs(a, b *Node, infoA, infoB *lib.PeerInfo, strictA, strictB bool) (errA, errB error, timedOut bool) {
	c1, c2 := newConnPair("a", "b")
	type res struct {
		side int
		err  error
	}
	out := make(chan res, 2)
	go func() { out <- res{0, toErr(a.AddPeer(c1, infoA, false, strictA))} }()
	go func() { out <- res{1, toErr(b.AddPeer(c2, infoB, false, strictB))} }()
	t := time.NewTimer(Watchdog)
	defer t.Stop()
	for i := 0; i < 2; i++ {
		select {
		case r := <-out:
			if r.side == 0 {
				errA = r.err
			} else {
				errB = r.err
			}
			if r.err != nil {
				_ = c1.Close()
				_ = c2.Close()
			}
		case <-t.C:
			_ = c1.Close()
			_ = c2.Close()
			return errA, errB, true
		}
	}
	return errA, errB, false
}

// Received is one message taken from an inbox.
type Received struct {
	Topic  lib.Topic
	Msg    []byte
	Sender []byte
}

// Drain empties all inboxes without blocking.
func (n *Node) Drain() (out []Received) {
	for t := lib.Topic(0); t <= lib.Topic_HEARTBEAT; t++ {
		for {
			select {
			case m := <-n.Inbox(t):
				r := Received{Topic: t, Msg: m.Message}
				if m.Sender != nil && m.Sender.Address != nil {
					r.Sender = m.Sender.Address.PublicKey
				}
				out = append(out, r)
				continue
			default:
			}
			break
		}
	}
	return
}

// ---------------------------------------------------------------- envelopes

// PacketBody marshals Envelope{Any(Packet)}.
func PacketBody(topic int32, eof bool, data []byte) []byte {
	a, err := anypb.New(&p2p.Packet{StreamId: lib.Topic(topic), Eof: eof, Bytes: data})
	if err != nil {
		panic(err)
	}
	return mustMarshal(&p2p.Envelope{Payload: a})
}

// AnyBody marshals Envelope{Any(m)} for an arbitrary registered message.
func AnyBody(m proto.Message) []byte {
	a, err := anypb.New(m)
	if err != nil {
		panic(err)
	}
	return mustMarshal(&p2p.Envelope{Payload: a})
}

// RawAnyBody marshals Envelope{Any{typeURL,value}} verbatim.
func RawAnyBody(typeURL string, value []byte) []byte {
	return mustMarshal(&p2p.Envelope{Payload: &anypb.Any{TypeUrl: typeURL, Value: value}})
}

// ---------------------------------------------------------------- raw attacker peer

// RawPeer is a peer that completed an honest handshake with a node (real p2p.NewHandshake on its own
// side) and then writes whatever the harness tells it to, while a reader goroutine drains and
// records everything the node sends (pings must be consumed or the node's sender blocks).
type RawPeer struct {
	EC   *p2p.EncryptedConn
	Key  crypto.PrivateKeyI
	Pub  []byte
	pipe net.Conn

	mu      sync.Mutex
	packets []*p2p.Packet
	readErr error
	done    chan struct{}
}

// WriteBudget bounds a single blocking write of the raw peer (net.Pipe is synchronous).
const WriteBudget = 30 * time.Second

// ConnectRaw joins a raw peer with the given identity to the node (inbound at the node).
func ConnectRaw(n *Node, key crypto.PrivateKeyI) (*RawPeer, error) {
	c1, c2 := newConnPair("node", "raw")
	errs := make(chan error, 1)
	go func() {
		errs <- toErr(n.AddPeer(c1, &lib.PeerInfo{Address: &lib.PeerAddress{NetAddress: "raw-peer", PeerMeta: &lib.PeerMeta{}}}, false, false))
	}()
	res := StartHandshake(c2, Meta(n.Net, n.Chain), key)
	var r HSResult
	var addErr error
	for i := 0; i < 2; i++ {
		select {
		case r = <-res:
		case addErr = <-errs:
		case <-time.After(Watchdog):
			_ = c1.Close()
			_ = c2.Close()
			return nil, ErrTimeout
		}
	}
	if !r.OK() || addErr != nil {
		_ = c1.Close()
		_ = c2.Close()
		if r.Err != nil {
			return nil, r.Err
		}
		if addErr != nil {
			return nil, addErr
		}
		return nil, fmt.Errorf("p2psim: raw handshake: %v", r.Panic)
	}
	p := &RawPeer{EC: r.EC, Key: key, Pub: key.PublicKey().Bytes(), pipe: c2, done: make(chan struct{})}
	go p.readLoop()
	return p, nil
}

func (p *RawPeer) readLoop() {
	defer close(p.done)
	for {
		body, err := ReadLP(p.EC)
		if err != nil {
			p.mu.Lock()
			p.readErr = err
			p.mu.Unlock()
			return
		}
		env := new(p2p.Envelope)
		if e := lib.Unmarshal(body, env); e != nil {
			continue
		}
		if m, e := lib.FromAny(env.Payload); e == nil {
			if pk, ok := m.(*p2p.Packet); ok {
				p.mu.Lock()
				p.packets = append(p.packets, pk)
				p.mu.Unlock()
			}
		}
	}
}

// Closed reports whether the node closed the connection (the reader saw an error).
func (p *RawPeer) Closed() bool {
	select {
	case <-p.done:
		return true
	default:
		return false
	}
}

// Packets returns what the node sent so far.
func (p *RawPeer) Packets() []*p2p.Packet {
	p.mu.Lock()
	defer p.mu.Unlock()
	return append([]*p2p.Packet(nil), p.packets...)
}

// WriteWire encrypts and writes bytes in ONE EncryptedConn.Write (atomic w.r.t. other writers).
func (p *RawPeer) WriteWire(b []byte) error {
	_ = p.pipe.SetWriteDeadline(time.Now().Add(WriteBudget))
	_, err := p.EC.Write(b)
	return err
}

// SendBody sends a correctly length-prefixed body.
func (p *RawPeer) SendBody(body []byte) error { return p.WriteWire(LP(body)) }

// SendPrefixed sends an arbitrary 4-byte length prefix followed by body.
func (p *RawPeer) SendPrefixed(prefix uint32, body []byte) error {
	b := make([]byte, 4+len(body))
	binary.BigEndian.PutUint32(b, prefix)
	copy(b[4:], body)
	return p.WriteWire(b)
}

// SendPacket sends one well-formed packet envelope.
func (p *RawPeer) SendPacket(topic int32, eof bool, data []byte) error {
	return p.SendBody(PacketBody(topic, eof, data))
}

// Close closes the raw peer's side.
func (p *RawPeer) Close() {
	_ = p.EC.Close()
	select {
	case <-p.done:
	case <-time.After(5 * time.Second):
	}
}
