package p2psim

import (
	"fmt"
	"os"
	"strings"
	"sync"
)

// RecLog is a lib.LoggerI that keeps warnings and errors (why a connection was torn down is only
// visible there) and drops the rest. Fatal does not exit.
type RecLog struct {
	mu    sync.Mutex
	lines []string
	echo  bool
}

func newRecLog() *RecLog { return &RecLog{echo: os.Getenv("P2PSIM_LOG") != ""} }

func (l *RecLog) keep(level, msg string) {
	l.mu.Lock()
	if len(l.lines) < 4096 {
		l.lines = append(l.lines, level+": "+msg)
	}
	l.mu.Unlock()
	if l.echo {
		fmt.Fprintln(os.Stderr, level+": "+msg)
	}
}

func (l *RecLog) Debug(msg string)                  {}
func (l *RecLog) Info(msg string)                   {}
func (l *RecLog) Print(msg string)                  {}
func (l *RecLog) Warn(msg string)                   { l.keep("WARN", msg) }
func (l *RecLog) Error(msg string)                  { l.keep("ERROR", msg) }
func (l *RecLog) Fatal(msg string)                  { l.keep("FATAL", msg) }
func (l *RecLog) Debugf(format string, args ...any) {}
func (l *RecLog) Infof(format string, args ...any)  {}
func (l *RecLog) Printf(format string, args ...any) {}
func (l *RecLog) Warnf(format string, args ...any)  { l.keep("WARN", fmt.Sprintf(format, args...)) }
func (l *RecLog) Errorf(format string, args ...any) { l.keep("ERROR", fmt.Sprintf(format, args...)) }
func (l *RecLog) Fatalf(format string, args ...any) { l.keep("FATAL", fmt.Sprintf(format, args...)) }

// Lines returns a copy of the kept lines.
func (l *RecLog) Lines() []string {
	l.mu.Lock()
	defer l.mu.Unlock()
	return append([]string(nil), l.lines...)
}

// Contains reports whether any kept line contains one of the substrings.
func (l *RecLog) Contains(subs ...string) bool {
	for _, ln := range l.Lines() {
		for _, s := range subs {
			if strings.Contains(ln, s) {
				return true
			}
		}
	}
	return false
}

// TimedOut reports whether the node itself gave up on a connection because of a wall-clock limit
// (3 s heartbeat silence, read/write deadline, queue wait): on a loaded machine that is a harness
// artefact, so the case is inconclusive - never a violation, never a pass.
func (l *RecLog) TimedOut() bool {
	return l.Contains("Heartbeat timeout", "pong timeout", "i/o timeout", "deadline exceeded", "packet failed in queue")
}

// PeerErrors returns the teardown reasons the node logged (for failure messages).
func (l *RecLog) PeerErrors() string {
	var out []string
	for _, ln := range l.Lines() {
		if strings.HasPrefix(ln, "WARN") {
			out = append(out, strings.Join(strings.Fields(ln), " "))
		}
	}
	if len(out) > 6 {
		out = out[len(out)-6:]
	}
	return strings.Join(out, " | ")
}
