// Package crashfs wraps pebble's crashable in-memory file system in an operation counter: every mutating
// file-system operation (create, write, sync, rename, remove, link, reuse, mkdir, lock) is numbered, and a hook
// runs at every operation boundary (operation k-1 has completed, operation k has not started) while all other
// file-system mutations are held back, so the hook can take a crash clone of exactly that instant.
package crashfs

import (
	"encoding/base64"
	"fmt"
	"io"
	"os"
	"sort"
	"strings"
	"sync"

	"github.com/cockroachdb/pebble/v2/vfs"
)

// Kind of a counted file-system operation.
type Kind string

const (
	Create    Kind = "create"
	OpenRW    Kind = "openrw"
	Write     Kind = "write"
	WriteAt   Kind = "writeat"
	Sync      Kind = "sync"
	SyncDir   Kind = "syncdir"
	Rename    Kind = "rename"
	Remove    Kind = "remove"
	RemoveAll Kind = "removeall"
	Link      Kind = "link"
	Reuse     Kind = "reuse"
	Mkdir     Kind = "mkdir"
	Lock      Kind = "lock"
)

// Op is one counted operation.
type Op struct {
	Index int
	Kind  Kind
	Name  string // file the operation is on
	Size  int    // bytes for writes
}

// FileClass classifies the file an operation is on: wal, sst, manifest, options, dir, other.
func (o Op) FileClass() string {
	n := o.Name
	if i := strings.LastIndexAny(n, "/\\"); i >= 0 {
		n = n[i+1:]
	}
	switch {
	case o.Kind == SyncDir || o.Kind == Mkdir:
		return "dir"
	case strings.HasSuffix(n, ".log"):
		return "wal"
	case strings.HasSuffix(n, ".sst"):
		return "sst"
	case strings.HasPrefix(n, "MANIFEST"):
		return "manifest"
	case strings.HasPrefix(n, "OPTIONS"):
		return "options"
	case strings.HasPrefix(n, "CURRENT") || strings.HasPrefix(n, "marker"):
		return "marker"
	case n == "LOCK":
		return "lock"
	default:
		return "other"
	}
}

// FS is a counting vfs.FS over a crashable MemFS.
type FS struct {
	vfs.FS
	Mem *vfs.MemFS

	mu      sync.Mutex
	n       int
	openSST int
	// Hook, if set, runs before operation op (numbered from 0) executes, with every other mutation blocked.
	Hook func(op Op)
}

// New wraps a fresh crashable MemFS.
func New() *FS {
	m := vfs.NewCrashableMem()
	return &FS{FS: m, Mem: m}
}

// Count is the number of operations started so far.
func (f *FS) Count() int {
	f.mu.Lock()
	defer f.mu.Unlock()
	return f.n
}

// OpenSSTs is the number of table files currently being written (created and not yet closed): > 0 means a
// flush or compaction is in progress.
func (f *FS) OpenSSTs() int {
	f.mu.Lock()
	defer f.mu.Unlock()
	return f.openSST
}

// OpenSSTsLocked is OpenSSTs for use inside the hook (which already runs under the lock).
func (f *FS) OpenSSTsLocked() int { return f.openSST }

// SetHook installs (or removes) the hook.
func (f *FS) SetHook(h func(op Op)) {
	f.mu.Lock()
	f.Hook = h
	f.mu.Unlock()
}

// do numbers the operation, runs the hook and the operation itself under the lock.
func (f *FS) do(k Kind, name string, size int, fn func()) {
	f.mu.Lock()
	defer f.mu.Unlock()
	op := Op{Index: f.n, Kind: k, Name: name, Size: size}
	f.n++
	if f.Hook != nil {
		f.Hook(op)
	}
	fn()
}

func (f *FS) wrap(file vfs.File, name string, dir bool) vfs.File {
	if file == nil {
		return nil
	}
	w := &File{File: file, fs: f, name: name, dir: dir, sst: strings.HasSuffix(name, ".sst")}
	return w
}

func (f *FS) Create(name string, c vfs.DiskWriteCategory) (file vfs.File, err error) {
	f.do(Create, name, 0, func() {
		file, err = f.FS.Create(name, c)
		if err == nil && strings.HasSuffix(name, ".sst") {
			f.openSST++
		}
	})
	if err != nil {
		return nil, err
	}
	w := f.wrap(file, name, false).(*File)
	w.counted = w.sst
	return w, nil
}

func (f *FS) OpenReadWrite(name string, c vfs.DiskWriteCategory, opts ...vfs.OpenOption) (file vfs.File, err error) {
	f.do(OpenRW, name, 0, func() { file, err = f.FS.OpenReadWrite(name, c, opts...) })
	if err != nil {
		return nil, err
	}
	return f.wrap(file, name, false), nil
}

func (f *FS) OpenDir(name string) (vfs.File, error) {
	file, err := f.FS.OpenDir(name)
	if err != nil {
		return nil, err
	}
	return f.wrap(file, name, true), nil
}

func (f *FS) Link(oldname, newname string) (err error) {
	f.do(Link, newname, 0, func() { err = f.FS.Link(oldname, newname) })
	return
}

func (f *FS) Remove(name string) (err error) {
	f.do(Remove, name, 0, func() { err = f.FS.Remove(name) })
	return
}

func (f *FS) RemoveAll(name string) (err error) {
	f.do(RemoveAll, name, 0, func() { err = f.FS.RemoveAll(name) })
	return
}

func (f *FS) Rename(oldname, newname string) (err error) {
	f.do(Rename, newname, 0, func() { err = f.FS.Rename(oldname, newname) })
	return
}

func (f *FS) ReuseForWrite(oldname, newname string, c vfs.DiskWriteCategory) (file vfs.File, err error) {
	f.do(Reuse, newname, 0, func() { file, err = f.FS.ReuseForWrite(oldname, newname, c) })
	if err != nil {
		return nil, err
	}
	return f.wrap(file, newname, false), nil
}

func (f *FS) MkdirAll(dir string, perm os.FileMode) (err error) {
	f.do(Mkdir, dir, 0, func() { err = f.FS.MkdirAll(dir, perm) })
	return
}

func (f *FS) Lock(name string) (c io.Closer, err error) {
	f.do(Lock, name, 0, func() { c, err = f.FS.Lock(name) })
	return
}

// Unwrap returns the wrapped file system.
func (f *FS) Unwrap() vfs.FS { return f.FS }

// File counts writes and syncs of one open file.
type File struct {
	vfs.File
	fs      *FS
	name    string
	dir     bool
	sst     bool
	counted bool
	closed  bool
}

func (w *File) Write(p []byte) (n int, err error) {
	w.fs.do(Write, w.name, len(p), func() { n, err = w.File.Write(p) })
	return
}

func (w *File) WriteAt(p []byte, off int64) (n int, err error) {
	w.fs.do(WriteAt, w.name, len(p), func() { n, err = w.File.WriteAt(p, off) })
	return
}

func (w *File) syncKind() Kind {
	if w.dir {
		return SyncDir
	}
	return Sync
}

func (w *File) Sync() (err error) {
	w.fs.do(w.syncKind(), w.name, 0, func() { err = w.File.Sync() })
	return
}

func (w *File) SyncData() (err error) {
	w.fs.do(w.syncKind(), w.name, 0, func() { err = w.File.SyncData() })
	return
}

func (w *File) SyncTo(length int64) (full bool, err error) {
	w.fs.do(w.syncKind(), w.name, 0, func() { full, err = w.File.SyncTo(length) })
	return
}

func (w *File) Close() error {
	w.fs.mu.Lock()
	if w.counted && !w.closed {
		w.fs.openSST--
	}
	w.closed = true
	w.fs.mu.Unlock()
	return w.File.Close()
}

// ---------------------------------------------------------------------------------------------------------------------
// file system images (replay artefacts)

// Image is a serialisable copy of a file system: path -> base64 content; directories end in "/".
type Image map[string]string

// Dump copies every file below dir.
func Dump(fs vfs.FS, dir string) (Image, error) {
	img := Image{}
	var walk func(d string) error
	walk = func(d string) error {
		names, err := fs.List(d)
		if err != nil {
			return err
		}
		sort.Strings(names)
		for _, n := range names {
			p := fs.PathJoin(d, n)
			st, err := fs.Stat(p)
			if err != nil {
				return err
			}
			if st.IsDir() {
				img[p+"/"] = ""
				if err := walk(p); err != nil {
					return err
				}
				continue
			}
			f, err := fs.Open(p)
			if err != nil {
				return err
			}
			b, err := io.ReadAll(f)
			_ = f.Close()
			if err != nil {
				return err
			}
			img[p] = base64.StdEncoding.EncodeToString(b)
		}
		return nil
	}
	if err := walk(dir); err != nil {
		return nil, err
	}
	return img, nil
}

// Load builds a fresh (fully synced) in-memory file system from an image.
func Load(img Image) (*vfs.MemFS, error) {
	fs := vfs.NewMem()
	paths := make([]string, 0, len(img))
	for p := range img {
		paths = append(paths, p)
	}
	sort.Strings(paths)
	for _, p := range paths {
		if strings.HasSuffix(p, "/") {
			if err := fs.MkdirAll(strings.TrimSuffix(p, "/"), 0o755); err != nil {
				return nil, err
			}
			continue
		}
		if err := fs.MkdirAll(fs.PathDir(p), 0o755); err != nil {
			return nil, err
		}
		b, err := base64.StdEncoding.DecodeString(img[p])
		if err != nil {
			return nil, fmt.Errorf("%s: %v", p, err)
		}
		f, err := fs.Create(p, vfs.WriteCategoryUnspecified)
		if err != nil {
			return nil, err
		}
		if _, err = f.Write(b); err != nil {
			return nil, err
		}
		if err = f.Close(); err != nil {
			return nil, err
		}
	}
	return fs, nil
}

// ---------------------------------------------------------------------------------------------------------------------

// Log is a logger (lib.LoggerI and pebble.Logger) that swallows everything and records Fatal calls instead
// of exiting the process, so that a fatal condition on the open path of a crashed image is observable.
type Log struct {
	mu     sync.Mutex
	fatals []string
}

func (l *Log) Debug(string)          {}
func (l *Log) Info(string)           {}
func (l *Log) Warn(string)           {}
func (l *Log) Error(string)          {}
func (l *Log) Print(string)          {}
func (l *Log) Debugf(string, ...any) {}
func (l *Log) Infof(string, ...any)  {}
func (l *Log) Warnf(string, ...any)  {}
func (l *Log) Errorf(string, ...any) {}
func (l *Log) Printf(string, ...any) {}
func (l *Log) Fatal(msg string) {
	l.mu.Lock()
	l.fatals = append(l.fatals, msg)
	l.mu.Unlock()
}
func (l *Log) Fatalf(format string, a ...any) { l.Fatal(fmt.Sprintf(format, a...)) }

// Fatals returns the recorded fatal messages.
func (l *Log) Fatals() []string {
	l.mu.Lock()
	defer l.mu.Unlock()
	return append([]string(nil), l.fatals...)
}
