package nodesim

import (
	"fmt"
	"math/big"

	"github.com/canopy-network/canopy/lib"
	"github.com/canopy-network/canopy/lib/crypto"
	"google.golang.org/protobuf/proto"

	"verif/h/keys"
)

// KeyRing maps BLS public keys to the deterministic private keys of h/keys.
type KeyRing map[string]crypto.PrivateKeyI

// NewKeyRing registers keys.BLS(0..n-1).
func NewKeyRing(n int) KeyRing {
	k := KeyRing{}
	for i := 0; i < n; i++ {
		p := keys.BLS(i)
		k[string(p.PublicKey().Bytes())] = p
	}
	return k
}

// CloneQC deep-copies a certificate (handlers mutate certificates; every hand-over goes through a copy like the wire).
func CloneQC(qc *lib.QuorumCertificate) *lib.QuorumCertificate {
	if qc == nil {
		return nil
	}
	return proto.Clone(qc).(*lib.QuorumCertificate)
}

// WireQC passes a certificate through Marshal/Unmarshal.
func WireQC(qc *lib.QuorumCertificate) (*lib.QuorumCertificate, error) {
	bz, err := lib.Marshal(qc)
	if err != nil {
		return nil, err
	}
	out := new(lib.QuorumCertificate)
	if err = lib.Unmarshal(bz, out); err != nil {
		return nil, err
	}
	return out, nil
}

// NewQC assembles the unsigned certificate for a proposal in the given view, the way the leader's PROPOSE / the replicas'
// votes build it (bft.StartProposePhase / StartPrecommitVotePhase): header = view, hashes, proposer key.
func NewQC(p *Proposal, view *lib.View, proposerKey []byte) *lib.QuorumCertificate {
	return &lib.QuorumCertificate{
		Header:      proto.Clone(view).(*lib.View),
		Results:     proto.Clone(p.Results).(*lib.CertificateResult),
		ResultsHash: p.Results.Hash(),
		Block:       append([]byte(nil), p.Block...),
		BlockHash:   append([]byte(nil), p.BlockHash...),
		ProposerKey: append([]byte(nil), proposerKey...),
	}
}

// ViewFor returns the view a committee at the node's current height votes in.
func (n *Node) ViewFor(phase lib.Phase, round uint64) *lib.View {
	return &lib.View{NetworkId: n.Cfg.NetworkID, ChainId: n.Cfg.ChainId, Height: n.C.ChainHeight(), RootHeight: n.C.RootChainHeight(), Round: round, Phase: phase}
}

// Sign makes the committee members with the given indexes (order of vs) really sign qc.SignBytes() with their BLS keys and
// sets qc.Signature to the aggregate + bitmap, exactly like the leader does (bft GetMajorityVote -> AddSigner/AggregateSignatures).
func Sign(qc *lib.QuorumCertificate, vs lib.ValidatorSet, ring KeyRing, signers []int) error {
	sig, err := Aggregate(qc.SignBytes(), vs, ring, signers)
	if err != nil {
		return err
	}
	qc.Signature = sig
	return nil
}

// Aggregate signs an arbitrary payload with a signer subset.
func Aggregate(payload []byte, vs lib.ValidatorSet, ring KeyRing, signers []int) (*lib.AggregateSignature, error) {
	mk := vs.MultiKey.Copy()
	for _, i := range signers {
		if i < 0 || i >= len(vs.ValidatorSet.ValidatorSet) {
			return nil, fmt.Errorf("signer index %d out of range", i)
		}
		pk, ok := ring[string(vs.ValidatorSet.ValidatorSet[i].PublicKey)]
		if !ok {
			return nil, fmt.Errorf("no private key for committee member %d", i)
		}
		if err := mk.AddSigner(pk.Sign(payload), i); err != nil {
			return nil, err
		}
	}
	agg, err := mk.AggregateSignatures()
	if err != nil {
		return nil, err
	}
	return &lib.AggregateSignature{Signature: agg, Bitmap: append([]byte(nil), mk.Bitmap()...)}, nil
}

// Power recounts, in big integers and from the validator list alone, the total power, the +2/3 threshold floor(2T/3)+1
// and the power of a signer subset.
func Power(vs lib.ValidatorSet, signers []int) (total, threshold, signed *big.Int) {
	total, signed = new(big.Int), new(big.Int)
	seen := map[int]bool{}
	for i, v := range vs.ValidatorSet.ValidatorSet {
		total.Add(total, new(big.Int).SetUint64(v.VotingPower))
		_ = i
	}
	for _, i := range signers {
		if seen[i] || i < 0 || i >= len(vs.ValidatorSet.ValidatorSet) {
			continue
		}
		seen[i] = true
		signed.Add(signed, new(big.Int).SetUint64(vs.ValidatorSet.ValidatorSet[i].VotingPower))
	}
	threshold = new(big.Int).Mul(total, big.NewInt(2))
	threshold.Div(threshold, big.NewInt(3))
	threshold.Add(threshold, big.NewInt(1))
	return
}

// AllSigners returns 0..n-1.
func AllSigners(vs lib.ValidatorSet) []int {
	if vs.ValidatorSet == nil {
		return nil
	}
	out := make([]int, len(vs.ValidatorSet.ValidatorSet))
	for i := range out {
		out[i] = i
	}
	return out
}
