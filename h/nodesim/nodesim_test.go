package nodesim

import (
	"bytes"
	"testing"
	"time"

	"github.com/canopy-network/canopy/fsm"
	"github.com/canopy-network/canopy/lib"

	"verif/h/chainsim"
	"verif/h/keys"
	"verif/h/storemodel"
)

func genesis1() *fsm.GenesisState {
	vals := []chainsim.ValSpec{{Key: 0, OutputKey: -1, Stake: 1000}, {Key: 1, OutputKey: -1, Stake: 2000}, {Key: 2, OutputKey: -1, Stake: 3000}, {Key: 3, OutputKey: -1, Stake: 500}}
	accts := []chainsim.AcctSpec{{Kind: 1, Key: 0, Amount: 1_000_000_000}, {Kind: 1, Key: 1, Amount: 1_000_000_000}}
	return chainsim.BuildGenesis(1, vals, accts, nil, nil)
}

func TestNodesimSingleChain(t *testing.T) {
	s := NewSim()
	defer s.Close()
	ring := NewKeyRing(8)
	mk := func(name string, k int) *Node {
		n, err := s.NewNode(NodeOpts{Name: name, Genesis: genesis1(), Key: keys.BLS(k)})
		if err != nil {
			t.Fatal(err)
		}
		return n
	}
	a, b := mk("A", 0), mk("B", 1)
	var certified []*lib.QuorumCertificate
	clock := uint64(1_700_000_000_000_000)
	for h := 1; h <= 4; h++ {
		t0 := time.Now()
		for i := 0; i < 3; i++ {
			clock += 1000
			tx, _, err := chainsim.SignTxAt(keys.Ed(0), &fsm.MessageSend{FromAddress: chainsim.Addr(keys.Ed(0)), ToAddress: chainsim.Addr(keys.Ed(5 + i)), Amount: 1000}, 1, 1, 10000, uint64(h), clock, "")
			if err != nil {
				t.Fatal(err)
			}
			if e := a.AddTx(tx); e != nil {
				t.Fatal(e)
			}
		}
		p, e := a.Produce()
		if e != nil {
			t.Fatalf("produce h=%d: %v", h, e)
		}
		view := a.ViewFor(lib.Phase_PRECOMMIT_VOTE, 0)
		qc := NewQC(p, view, a.C.PublicKey)
		vs, e := a.Committee(view.RootHeight)
		if e != nil {
			t.Fatal(e)
		}
		if err := Sign(qc, vs, ring, []int{0, 1, 2}); err != nil {
			t.Fatal(err)
		}
		if _, e = b.Validate(p.RcBuildHeight, qc); e != nil {
			t.Fatalf("validate h=%d: %v", h, e)
		}
		if _, e = b.Deliver(CloneQC(qc), false); e != nil {
			t.Fatalf("B commit h=%d: %v", h, e)
		}
		if _, e = a.Deliver(CloneQC(qc), false); e != nil {
			t.Fatalf("A commit h=%d: %v", h, e)
		}
		certified = append(certified, qc)
		blk := new(lib.Block)
		_ = lib.Unmarshal(p.Block, blk)
		t.Logf("h=%d txs=%d took %v", h, len(blk.Transactions), time.Since(t0))
	}
	if a.Height() != 5 || b.Height() != 5 {
		t.Fatalf("heights %d %d", a.Height(), b.Height())
	}
	// sync a fresh node from A's archive, after a restart of A
	if err := a.Restart(); err != nil {
		t.Fatal(err)
	}
	c := mk("C", 5)
	for h := uint64(1); h <= 4; h++ {
		qc, e := a.Serve(h)
		if e != nil {
			t.Fatal(e)
		}
		if !bytes.Equal(qc.Block, certified[h-1].Block) {
			t.Fatalf("served block bytes differ at %d", h)
		}
		if _, e = c.Deliver(qc, true); e != nil {
			t.Fatalf("C sync h=%d: %v", h, e)
		}
	}
	sa, _ := a.Scan()
	sc, _ := c.Scan()
	if ScanDigest(sa) != ScanDigest(sc) {
		t.Fatal("scan mismatch")
	}
	root := storemodel.Root(sc)
	if !bytes.Equal(root, c.LastHeader().StateRoot) || !bytes.Equal(a.LastHeader().Hash, c.LastHeader().Hash) {
		t.Fatalf("root mismatch")
	}
}

func TestNodesimTwoChain(t *testing.T) {
	s := NewSim()
	defer s.Close()
	ring := NewKeyRing(8)
	vals := []chainsim.ValSpec{{Key: 0, OutputKey: -1, Stake: 1000}, {Key: 1, OutputKey: -1, Stake: 2000}, {Key: 2, OutputKey: -1, Stake: 3000}}
	accts := []chainsim.AcctSpec{{Kind: 1, Key: 0, Amount: 1_000_000_000}, {Kind: 1, Key: 1, Amount: 1_000_000_000}}
	rg, ng := TwoChainGenesis(vals, accts, true, nil)
	mk := func(name string, k int, chain uint64, g *fsm.GenesisState, root *Node) *Node {
		n, err := s.NewNode(NodeOpts{Name: name, ChainID: chain, Genesis: g, Key: keys.BLS(k), Root: root})
		if err != nil {
			t.Fatal(err)
		}
		return n
	}
	ra, rb := mk("RA", 0, 1, rg, nil), mk("RB", 1, 1, rg, nil)
	na, nb := mk("NA", 0, 2, ng, ra), mk("NB", 1, 2, ng, ra)
	root := &Group{Sim: s, Ring: ring, Nodes: []*Node{ra, rb}}
	nest := &Group{Sim: s, Ring: ring, Nodes: []*Node{na, nb}}
	for i := 0; i < 4; i++ {
		t0 := time.Now()
		r, err := nest.Step(StepOpts{Proposer: 0, Paths: map[int]Path{1: Path(i % 2)}})
		if err != nil || !r.OK() {
			t.Fatalf("nested step %d: %v %v", i, err, r.Err())
		}
		t.Logf("nested h=%d rootHeight=%d rcBuild=%d rootDex=%v took %v submitted=%d", r.Height, r.QC.Header.RootHeight, r.Proposal.RcBuildHeight, r.QC.Results.RootDexBatch != nil, time.Since(t0), len(na.Submitted))
		// the certificate every node indexed is the certified one
		for _, n := range nest.Nodes {
			qc, e := n.Serve(r.Height)
			if e != nil {
				t.Fatal(e)
			}
			if !bytes.Equal(qc.Results.Hash(), qc.ResultsHash) {
				t.Fatalf("%s indexed inconsistent qc at %d", n.Name, r.Height)
			}
		}
		t0 = time.Now()
		r, err = root.Step(StepOpts{Proposer: 0})
		if err != nil || !r.OK() {
			t.Fatalf("root step %d: %v %v", i, err, r.Err())
		}
		blk := new(lib.Block)
		_ = lib.Unmarshal(r.Proposal.Block, blk)
		t.Logf("root h=%d txs=%d took %v", r.Height, len(blk.Transactions), time.Since(t0))
	}
	// self-test of the root-chain manager mock: its answers equal what the root chain pushes as RootChainInfo
	for h := uint64(1); h <= ra.Height(); h++ {
		s.Activate(ra)
		info, e := ra.C.FSM.LoadRootChainInfo(2, h)
		if e != nil {
			t.Fatal(e)
		}
		vs, e := na.RC.GetValidatorSet(1, 2, h)
		if e != nil || !bytes.Equal(mustBz(vs.ValidatorSet), mustBz(info.ValidatorSet)) {
			t.Fatalf("mock validator set at root height %d differs from RootChainInfo: %v", h, e)
		}
		lw, e := na.RC.GetLotteryWinner(1, h, 2)
		if e != nil || !bytes.Equal(mustBz(lw), mustBz(info.LotteryWinner)) {
			t.Fatalf("mock lottery winner at root height %d differs from RootChainInfo: %v", h, e)
		}
		ob, e := na.RC.GetOrders(1, h, 2)
		if e != nil || !bytes.Equal(mustBz(ob), mustBz(info.Orders)) {
			t.Fatalf("mock order book at root height %d differs from RootChainInfo: %v", h, e)
		}
	}
	if got := na.RC.GetHeight(1); got != ra.Height() {
		t.Fatalf("mock root height %d != %d", got, ra.Height())
	}
	sa, _ := na.Scan()
	sb, _ := nb.Scan()
	if ScanDigest(sa) != ScanDigest(sb) {
		t.Fatal("nested scan mismatch")
	}
	if !bytes.Equal(storemodel.Root(sa), na.LastHeader().StateRoot) {
		t.Fatal("nested root mismatch")
	}
}

func mustBz(m any) []byte {
	bz, err := lib.Marshal(m)
	if err != nil {
		panic(err)
	}
	return bz
}
