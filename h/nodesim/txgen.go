package nodesim

import (
	"fmt"

	"github.com/canopy-network/canopy/fsm"
	"github.com/canopy-network/canopy/lib"
	"github.com/canopy-network/canopy/lib/crypto"
	"pgregory.net/rapid"

	"verif/h/chainsim"
	"verif/h/keys"
)

// World is the generated population of a case: validators with weighted stakes, funded accounts of all key kinds, poor
// accounts (can pay one fee and little else), spare BLS keys that may stake later.
type World struct {
	NVals   int
	Stakes  []uint64
	Spare   int // number of spare BLS keys (indexes NVals..NVals+Spare-1), funded, not staked at genesis
	Rich    []Acct
	Poor    []Acct
	clock   uint64
	Chain   uint64
	Network uint64
	Peer    uint64 // the other chain of a two-chain setup (target of dex operations); 0 = none
	// Committees a (re-)staking validator serves; nil = {Chain}. The root chain of a two-chain setup uses {root, nested}:
	// an edit-stake must not silently drop the nested committee
	Committees []uint64
	// OpenOrders (optional, set by the check) returns the ids of the open, unlocked sell orders buyers on THIS chain can
	// lock (own-root chain: the chain's own book; nested chain: the root chain's book for this committee)
	OpenOrders func() [][]byte
	staked     map[int]bool // spare keys already staked by a generated tx (model, best effort)
}

// Acct names a key.
type Acct struct{ Kind, Key int }

func (a Acct) Priv() crypto.PrivateKeyI { return keys.Kind(a.Kind, a.Key) }
func (a Acct) Addr() []byte             { return chainsim.Addr(a.Priv()) }
func (a Acct) String() string {
	return fmt.Sprintf("%s%d", [...]string{"bls", "ed", "secp", "eth"}[a.Kind%4], a.Key)
}

const (
	RichAmount = 50_000_000_000
	PoorAmount = 25_000 // two plain fees and a little
)

// GenWorld draws a world: 3..7 validators; stakes are small integers times a scale so that exact-threshold signer subsets exist often.
func GenWorld(t *rapid.T, chain uint64) *World {
	w := &World{Chain: chain, Network: 1, clock: 1_700_000_000_000_000, staked: map[int]bool{}}
	w.NVals = rapid.IntRange(3, 7).Draw(t, "nVals")
	scale := rapid.SampledFrom([]uint64{1, 1, 7, 1000, 1_000_003}).Draw(t, "stakeScale")
	for i := 0; i < w.NVals; i++ {
		w.Stakes = append(w.Stakes, uint64(rapid.IntRange(1, 9).Draw(t, "stake"))*scale)
	}
	w.Spare = 2
	for i := 0; i < 4; i++ {
		w.Rich = append(w.Rich, Acct{1, i})
	}
	w.Rich = append(w.Rich, Acct{2, 0}, Acct{2, 1}, Acct{3, 0}, Acct{3, 1})
	for i := 0; i < 3; i++ {
		w.Poor = append(w.Poor, Acct{1, 10 + i})
	}
	return w
}

// BoundaryStakes constructs a stake vector for n >= 3 validators whose total T has the given residue mod 3 and that
// contains a subset summing EXACTLY to floor(2T/3) (= threshold-1) and one summing exactly to floor(2T/3)+1 (= threshold):
// the subset is chosen first (k members that split threshold-1), one member holds 1, the rest split T-threshold.
func BoundaryStakes(t *rapid.T, n, residue int) []uint64 {
	for {
		T := uint64(rapid.IntRange(4, 400).Draw(t, "totalPower"))
		T = T - T%3 + uint64(residue)
		thr := 2*T/3 + 1
		rest := T - thr // power outside the threshold subset
		k := rapid.IntRange(1, n-2).Draw(t, "subsetSize")
		others := n - k - 1
		if thr-1 < uint64(k) || (others > 0 && rest < uint64(others)) || (others == 0 && rest != 0) {
			continue
		}
		split := func(total uint64, parts int, label string) []uint64 {
			out := make([]uint64, parts)
			for i := range out {
				out[i] = 1
			}
			left := total - uint64(parts)
			for i := 0; i < parts-1 && left > 0; i++ {
				d := uint64(rapid.Uint64Range(0, left).Draw(t, label))
				out[i] += d
				left -= d
			}
			out[parts-1] += left
			return out
		}
		st := split(thr-1, k, "inSubset")
		st = append(st, 1)
		if others > 0 {
			st = append(st, split(rest, others, "outside")...)
		}
		// shuffle so that the boundary subset is not always the first keys
		return rapid.Permutation(st).Draw(t, "stakeOrder")
	}
}

// ValSpecs / AcctSpecs for chainsim.BuildGenesis.
func (w *World) ValSpecs() []chainsim.ValSpec {
	var out []chainsim.ValSpec
	for i := 0; i < w.NVals; i++ {
		out = append(out, chainsim.ValSpec{Key: i, OutputKey: -1, Stake: w.Stakes[i]})
	}
	return out
}

func (w *World) AcctSpecs() []chainsim.AcctSpec {
	var out []chainsim.AcctSpec
	for i := 0; i < w.NVals+w.Spare; i++ { // operators + future stakers
		out = append(out, chainsim.AcctSpec{Kind: 0, Key: i, Amount: RichAmount})
	}
	for _, a := range w.Rich {
		out = append(out, chainsim.AcctSpec{Kind: a.Kind, Key: a.Key, Amount: RichAmount})
	}
	for _, a := range w.Poor {
		out = append(out, chainsim.AcctSpec{Kind: a.Kind, Key: a.Key, Amount: PoorAmount})
	}
	return out
}

// Genesis builds a single-chain genesis; blockSize 0 = default.
func (w *World) Genesis(blockSize uint64) *fsm.GenesisState {
	p := fsm.DefaultParams()
	if blockSize != 0 {
		p.Consensus.BlockSize = blockSize
	}
	return chainsim.BuildGenesis(w.Chain, w.ValSpecs(), w.AcctSpecs(), nil, p)
}

func (w *World) committees() []uint64 {
	if w.Committees != nil {
		return w.Committees
	}
	return []uint64{w.Chain}
}

// Tick returns a fresh deterministic transaction time.
func (w *World) Tick() uint64 { w.clock += 1000; return w.clock }

// Tx is one generated transaction with what the generator intended.
type Tx struct {
	Bytes  []byte
	Kind   string // readable label
	Intent string // "ok" | "fail-state" (stateless valid, fails on execution) | "fail-check" (fails CheckTx) | "reject-admit" (mempool admission refuses)
	Desc   string
	// Proposal: a governance proposal the check should put on every node's approve list before offering it
	Proposal bool
}

func (w *World) sign(pk crypto.PrivateKeyI, msg lib.MessageI, fee, height uint64, chain uint64, memo string) []byte {
	bz, _, err := chainsim.SignTxAt(pk, msg, w.Network, chain, fee, height, w.Tick(), memo)
	if err != nil {
		panic(err)
	}
	return bz
}

// Send builds a plain send with explicit fee and memo (for checks that construct size / fee patterns).
func (w *World) Send(from Acct, to []byte, amt, fee, height uint64, memo string) []byte {
	return w.sign(from.Priv(), &fsm.MessageSend{FromAddress: from.Addr(), ToAddress: to, Amount: amt}, fee, height, w.Chain, memo)
}

// SendSignedBy builds a send from `from` that is (validly) signed by the key of `signer` - unauthorized when they differ.
func (w *World) SendSignedBy(signer, from Acct, to []byte, amt, fee, height uint64) []byte {
	return w.sign(signer.Priv(), &fsm.MessageSend{FromAddress: from.Addr(), ToAddress: to, Amount: amt}, fee, height, w.Chain, "")
}

// EditStake builds an edit-stake of validator i (keys.BLS(i)) to a new total amount, keeping the world's committees.
func (w *World) EditStake(i int, amount, fee, height uint64) []byte {
	k := keys.BLS(i)
	return w.sign(k, &fsm.MessageEditStake{Address: chainsim.Addr(k), Amount: amount, Committees: w.committees(), NetAddress: "tcp://127.0.0.1", OutputAddress: chainsim.Addr(k)}, fee, height, w.Chain, "")
}

// TxKinds lists the generated kinds (for class accounting).
var TxKinds = []string{"send", "send-broke", "double-spend", "stake-new", "edit-stake-up", "pause", "unpause", "unstake", "bad-sig", "wrong-chain",
	"noncanonical", "dup-same", "low-fee", "change-param", "dao-transfer", "subsidy", "create-order", "big-memo", "hostile-amount", "future-height", "send-self",
	"dex-order", "dex-deposit", "dex-withdraw", "create-order-peer", "lock-orders", "param-approved", "param-approved-valid"}

// ForChain returns a copy of the world that signs for another chain (same keys and accounts).
func (w *World) ForChain(chain, peer uint64) *World {
	c := *w
	c.Chain, c.Peer = chain, peer
	c.Stakes = append([]uint64(nil), w.Stakes...)
	c.staked = map[int]bool{}
	c.clock += 500 // never collide with the other chain's transaction times
	return &c
}

// GenTx draws one transaction (or a pair for conflicts) valid for inclusion at `height`.
func (w *World) GenTx(t *rapid.T, height uint64, kinds []string) []Tx {
	kind := rapid.SampledFrom(kinds).Draw(t, "txKind")
	rich := func(l string) Acct { return w.Rich[rapid.IntRange(0, len(w.Rich)-1).Draw(t, l)] }
	fee := uint64(10000)
	one := func(bz []byte, intent, desc string) []Tx {
		return []Tx{{Bytes: bz, Kind: kind, Intent: intent, Desc: desc}}
	}
	switch kind {
	case "send":
		from, to := rich("from"), rapid.IntRange(20, 40).Draw(t, "toKey")
		amt := uint64(rapid.IntRange(1, 5000).Draw(t, "amt"))
		f := fee + uint64(rapid.IntRange(0, 3).Draw(t, "feeBump"))*1000
		return one(w.sign(from.Priv(), &fsm.MessageSend{FromAddress: from.Addr(), ToAddress: Addr(1, to), Amount: amt}, f, height, w.Chain, ""), "ok",
			fmt.Sprintf("send %s->ed%d %d fee%d", from, to, amt, f))
	case "send-self":
		from := rich("from")
		return one(w.sign(from.Priv(), &fsm.MessageSend{FromAddress: from.Addr(), ToAddress: from.Addr(), Amount: 7}, fee, height, w.Chain, ""), "ok", fmt.Sprintf("send-self %s", from))
	case "send-broke":
		from := w.Poor[rapid.IntRange(0, len(w.Poor)-1).Draw(t, "poor")]
		return one(w.sign(from.Priv(), &fsm.MessageSend{FromAddress: from.Addr(), ToAddress: Addr(1, 21), Amount: PoorAmount}, fee, height, w.Chain, ""), "fail-state",
			fmt.Sprintf("send-broke %s", from))
	case "double-spend":
		from := w.Poor[rapid.IntRange(0, len(w.Poor)-1).Draw(t, "poor")]
		a := w.sign(from.Priv(), &fsm.MessageSend{FromAddress: from.Addr(), ToAddress: Addr(1, 22), Amount: PoorAmount - 2*fee + 5000}, fee, height, w.Chain, "")
		b := w.sign(from.Priv(), &fsm.MessageSend{FromAddress: from.Addr(), ToAddress: Addr(1, 23), Amount: PoorAmount - 2*fee + 5000}, fee+1, height, w.Chain, "")
		return []Tx{{Bytes: a, Kind: kind, Intent: "conflict", Desc: fmt.Sprintf("ds1 %s", from)}, {Bytes: b, Kind: kind, Intent: "conflict", Desc: fmt.Sprintf("ds2 %s", from)}}
	case "stake-new":
		i := w.NVals + rapid.IntRange(0, w.Spare-1).Draw(t, "spare")
		k := keys.BLS(i)
		amt := uint64(rapid.IntRange(1, 9).Draw(t, "stake")) * w.Stakes[0]
		intent := "ok"
		if w.staked[i] {
			intent = "fail-state"
		}
		w.staked[i] = true
		return one(w.sign(k, &fsm.MessageStake{PublicKey: k.PublicKey().Bytes(), Amount: amt, Committees: w.committees(), NetAddress: "tcp://127.0.0.1", OutputAddress: chainsim.Addr(k)}, fee, height, w.Chain, ""),
			intent, fmt.Sprintf("stake bls%d %d", i, amt))
	case "edit-stake-up":
		i := rapid.IntRange(0, w.NVals-1).Draw(t, "val")
		k := keys.BLS(i)
		amt := w.Stakes[i] + uint64(rapid.IntRange(1, 5).Draw(t, "inc"))*w.Stakes[0]
		w.Stakes[i] = amt
		return one(w.sign(k, &fsm.MessageEditStake{Address: chainsim.Addr(k), Amount: amt, Committees: w.committees(), NetAddress: "tcp://127.0.0.1", OutputAddress: chainsim.Addr(k)}, fee, height, w.Chain, ""),
			"ok", fmt.Sprintf("edit-stake bls%d ->%d", i, amt))
	case "pause", "unpause", "unstake":
		// validators 0 and 1 never pause or unstake: a generated mix must not empty the committee (then no chain exists)
		i := rapid.IntRange(2, w.NVals-1).Draw(t, "val")
		k := keys.BLS(i)
		var m lib.MessageI
		switch kind {
		case "pause":
			m = &fsm.MessagePause{Address: chainsim.Addr(k)}
		case "unpause":
			m = &fsm.MessageUnpause{Address: chainsim.Addr(k)}
		default:
			m = &fsm.MessageUnstake{Address: chainsim.Addr(k)}
		}
		return one(w.sign(k, m, fee, height, w.Chain, ""), "maybe", fmt.Sprintf("%s bls%d", kind, i))
	case "bad-sig":
		from := rich("from")
		bz := w.sign(from.Priv(), &fsm.MessageSend{FromAddress: from.Addr(), ToAddress: Addr(1, 24), Amount: 5}, fee, height, w.Chain, "")
		tx := new(lib.Transaction)
		_ = lib.Unmarshal(bz, tx)
		tx.Signature.Signature[rapid.IntRange(0, len(tx.Signature.Signature)-1).Draw(t, "flip")] ^= 0x01
		bz, _ = lib.Marshal(tx)
		return one(bz, "fail-check", fmt.Sprintf("bad-sig %s", from))
	case "wrong-chain":
		from := rich("from")
		return one(w.sign(from.Priv(), &fsm.MessageSend{FromAddress: from.Addr(), ToAddress: Addr(1, 24), Amount: 5}, fee, height, w.Chain+7, ""), "fail-check", fmt.Sprintf("wrong-chain %s", from))
	case "noncanonical":
		// explicit default nonce field appended (field 10 varint 0): decodes to the same message, byte-different
		from := rich("from")
		bz := w.sign(from.Priv(), &fsm.MessageSend{FromAddress: from.Addr(), ToAddress: Addr(1, 25), Amount: 9}, fee, height, w.Chain, "")
		return one(append(append([]byte(nil), bz...), 0x50, 0x00), "fail-check", fmt.Sprintf("noncanonical %s", from))
	case "dup-same":
		// the same transaction bytes offered twice (mempool de-duplicates)
		from := rich("from")
		bz := w.sign(from.Priv(), &fsm.MessageSend{FromAddress: from.Addr(), ToAddress: Addr(1, 26), Amount: 11}, fee, height, w.Chain, "")
		return []Tx{{Bytes: bz, Kind: kind, Intent: "ok", Desc: fmt.Sprintf("dup %s", from)}, {Bytes: append([]byte(nil), bz...), Kind: kind, Intent: "dup", Desc: "dup-again"}}
	case "low-fee":
		from := rich("from")
		return one(w.sign(from.Priv(), &fsm.MessageSend{FromAddress: from.Addr(), ToAddress: Addr(1, 27), Amount: 5}, fee-1, height, w.Chain, ""), "fail-check", fmt.Sprintf("low-fee %s", from))
	case "change-param":
		from := rich("from")
		a, _ := lib.NewAny(&lib.UInt64Wrapper{Value: 2000})
		m := &fsm.MessageChangeParameter{ParameterSpace: "fee", ParameterKey: "sendFee", ParameterValue: a, StartHeight: height, EndHeight: height + 10}
		return one(w.sign(from.Priv(), m, fee, height, w.Chain, ""), "fail-state", fmt.Sprintf("change-param %s", from))
	case "dao-transfer":
		from := rich("from")
		m := &fsm.MessageDAOTransfer{Address: from.Addr(), Amount: 1, StartHeight: height, EndHeight: height + 10}
		return one(w.sign(from.Priv(), m, fee, height, w.Chain, ""), "fail-state", fmt.Sprintf("dao-transfer %s", from))
	case "subsidy":
		from := rich("from")
		return one(w.sign(from.Priv(), &fsm.MessageSubsidy{Address: from.Addr(), ChainId: w.Chain, Amount: uint64(rapid.IntRange(1, 900).Draw(t, "amt"))}, fee, height, w.Chain, ""), "ok", fmt.Sprintf("subsidy %s", from))
	case "create-order":
		from := rich("from")
		m := &fsm.MessageCreateOrder{ChainId: w.Chain, AmountForSale: 2_000_000_000, RequestedAmount: 1_000_000_000, SellerReceiveAddress: from.Addr(), SellersSendAddress: from.Addr()}
		return one(w.sign(from.Priv(), m, fee, height, w.Chain, ""), "maybe", fmt.Sprintf("create-order %s", from))
	case "big-memo":
		from := rich("from")
		n := rapid.SampledFrom([]int{100, 150, 200, 200, 200, 1500}).Draw(t, "memoLen")
		// varying fee: big transactions land between small ones in the mempool's fee order
		fee += uint64(rapid.IntRange(0, 3).Draw(t, "feeBump")) * 1000
		memo := make([]byte, n)
		for i := range memo {
			memo[i] = 'm'
		}
		return one(w.sign(from.Priv(), &fsm.MessageSend{FromAddress: from.Addr(), ToAddress: Addr(1, 28), Amount: 3}, fee, height, w.Chain, string(memo)), "maybe", fmt.Sprintf("big-memo %s %d", from, n))
	case "hostile-amount":
		from := rich("from")
		amt := rapid.SampledFrom([]uint64{0, 1 << 63, ^uint64(0), RichAmount, RichAmount + 1}).Draw(t, "amt")
		return one(w.sign(from.Priv(), &fsm.MessageSend{FromAddress: from.Addr(), ToAddress: Addr(1, 29), Amount: amt}, fee, height, w.Chain, ""), "maybe", fmt.Sprintf("hostile-amount %s %d", from, amt))
	case "param-approved", "param-approved-valid":
		// an APPROVED parameter change (on every node's approve list), with a valid or an INVALID value, directly followed
		// (next in fee order) by a transaction that reads the parameter
		from := rich("from")
		type pc struct {
			space, key string
			val        uint64
			reader     string
		}
		// (maxCommitteeSize below the committee size: the committee is truncated from the next height on; the block that
		// lowers it still loads the PREVIOUS height's committee for its validator root)
		choices := []pc{{"val", "unstakingBlocks", 7, "unstake"}, {"val", "maxPauseBlocks", 9, "pause"}, {"fee", "sendFee", 9000, "send"},
			{"val", "maxCommitteeSize", 2, "send"}, {"val", "maxCommitteeSize", uint64(w.NVals - 1), "pause"}, {"val", "maxCommitteeSize", 1, "send"}}
		if kind == "param-approved" {
			choices = append(choices, pc{"val", "unstakingBlocks", 0, "unstake"}, pc{"val", "maxPauseBlocks", 0, "pause"}, pc{"val", "delegateUnstakingBlocks", 1, "unstake"}, pc{"val", "nonSignWindow", 0, "pause"})
		}
		c := rapid.SampledFrom(choices).Draw(t, "paramChange")
		a, _ := lib.NewAny(&lib.UInt64Wrapper{Value: c.val})
		m := &fsm.MessageChangeParameter{ParameterSpace: c.space, ParameterKey: c.key, ParameterValue: a, StartHeight: height, EndHeight: height + 10, Signer: from.Addr()}
		out := []Tx{{Bytes: w.sign(from.Priv(), m, fee+9000, height, w.Chain, ""), Kind: kind, Intent: "maybe", Proposal: true, Desc: fmt.Sprintf("APPROVED change-param %s/%s=%d by %s", c.space, c.key, c.val, from)}}
		i := rapid.IntRange(2, w.NVals-1).Draw(t, "val")
		k := keys.BLS(i)
		var rm lib.MessageI
		var rk crypto.PrivateKeyI = k
		switch c.reader {
		case "unstake":
			rm = &fsm.MessageUnstake{Address: chainsim.Addr(k)}
		case "pause":
			rm = &fsm.MessagePause{Address: chainsim.Addr(k)}
		default:
			rk = from.Priv()
			rm = &fsm.MessageSend{FromAddress: from.Addr(), ToAddress: Addr(1, 31), Amount: 3}
		}
		return append(out, Tx{Bytes: w.sign(rk, rm, fee+8000, height, w.Chain, ""), Kind: kind, Intent: "maybe", Desc: fmt.Sprintf("reader %s bls%d", c.reader, i)})
	case "create-order-peer":
		// a sell order on this (root) chain for the committee of the peer chain
		from := rich("from")
		m := &fsm.MessageCreateOrder{ChainId: w.Peer, AmountForSale: 2_000_000_000 + uint64(rapid.IntRange(0, 9).Draw(t, "amt")), RequestedAmount: 1_000_000_000, SellerReceiveAddress: from.Addr(), SellersSendAddress: from.Addr()}
		return one(w.sign(from.Priv(), m, fee, height, w.Chain, ""), "ok", fmt.Sprintf("create-order(for chain %d) %s", w.Peer, from))
	case "lock-orders":
		// buyers lock EVERY open order (up to 4) in one go: send-to-self with the lock-order memo and the lock-order fee
		var open [][]byte
		if w.OpenOrders != nil {
			open = w.OpenOrders()
		}
		if len(open) == 0 {
			from := rich("from")
			m := &fsm.MessageCreateOrder{ChainId: w.Chain, AmountForSale: 2_000_000_000, RequestedAmount: 1_000_000_000, SellerReceiveAddress: from.Addr(), SellersSendAddress: from.Addr()}
			return one(w.sign(from.Priv(), m, fee, height, w.Chain, ""), "maybe", fmt.Sprintf("create-order %s", from))
		}
		if len(open) > 4 {
			open = open[:4]
		}
		var out []Tx
		for i, id := range open {
			buyer := w.Rich[(i+rapid.IntRange(0, len(w.Rich)-1).Draw(t, "buyer"))%len(w.Rich)]
			memo, err := lib.MarshalJSON(lib.LockOrder{OrderId: id, ChainId: w.Chain, BuyerReceiveAddress: buyer.Addr()})
			if err != nil || len(memo) > 200 {
				panic(fmt.Sprintf("lock order memo: %v len=%d", err, len(memo)))
			}
			bz := w.sign(buyer.Priv(), &fsm.MessageSend{FromAddress: buyer.Addr(), ToAddress: buyer.Addr(), Amount: 1}, 2*fee+uint64(i), height, w.Chain, string(memo))
			out = append(out, Tx{Bytes: bz, Kind: kind, Intent: "ok", Desc: fmt.Sprintf("lock-order %x by %s", id[:4], buyer)})
		}
		return out
	case "dex-order":
		from := rich("from")
		m := &fsm.MessageDexLimitOrder{ChainId: w.Peer, AmountForSale: uint64(rapid.IntRange(1000, 900000).Draw(t, "sell")), RequestedAmount: uint64(rapid.IntRange(1, 900000).Draw(t, "want")), Address: from.Addr()}
		return one(w.sign(from.Priv(), m, 0, height, w.Chain, ""), "maybe", fmt.Sprintf("dex-order %s %d/%d", from, m.AmountForSale, m.RequestedAmount))
	case "dex-deposit":
		from := rich("from")
		m := &fsm.MessageDexLiquidityDeposit{ChainId: w.Peer, Amount: uint64(rapid.IntRange(1000, 900000).Draw(t, "amt")), Address: from.Addr()}
		return one(w.sign(from.Priv(), m, 0, height, w.Chain, ""), "maybe", fmt.Sprintf("dex-deposit %s %d", from, m.Amount))
	case "dex-withdraw":
		from := rich("from")
		m := &fsm.MessageDexLiquidityWithdraw{ChainId: w.Peer, Percent: uint64(rapid.IntRange(1, 100).Draw(t, "pct")), Address: from.Addr()}
		return one(w.sign(from.Priv(), m, 0, height, w.Chain, ""), "maybe", fmt.Sprintf("dex-withdraw %s %d%%", from, m.Percent))
	case "future-height":
		from := rich("from")
		dh := rapid.SampledFrom([]uint64{1, 2, 5000, 1 << 40}).Draw(t, "dh")
		return one(w.sign(from.Priv(), &fsm.MessageSend{FromAddress: from.Addr(), ToAddress: Addr(1, 30), Amount: 3}, fee, height+dh, w.Chain, ""), "maybe", fmt.Sprintf("future-height %s +%d", from, dh))
	}
	panic("unknown kind " + kind)
}
