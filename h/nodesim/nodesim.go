// Package nodesim runs full canopy nodes WITHOUT sockets: each Node is the real controller.Controller (mempool, FSM,
// store, indexer, bft object for evidence processing) built by controller.New on a real store; what production wires
// through the network / the RPC server is replaced by direct calls:
//
//   - the root-chain manager (lib.RCManagerI, in production a websocket+HTTP client of the root chain's RPC server) is a mock
//     that answers from the root node's FSM with the same calls the RPC handlers in cmd/rpc/query.go make (rcmock.go);
//   - consensus: a proposal is produced by Controller.ProduceProposal, validated by Controller.ValidateProposal, the quorum
//     certificate is REALLY signed with the committee's BLS keys (qc.go) and handed to Controller.HandlePeerBlock, exactly
//     what BFT / ListenForBlock / Sync.processQueue do around those calls;
//   - the archive is served with Controller.LoadCertificate(h) like ListenForBlockRequests does.
//
// Process-wide caches: store.blockCache is keyed by height only, so several nodes in one process would read each
// other's blocks; Sim.Activate() purges it on every switch of the active node (= one process per node). The signature
// cache is only touched when a test asks for it.
//
// Nothing in the harness reads the wall clock or crypto/rand. canopy itself stamps Block.Time in Mempool.CheckMempool
// and the time of the auto-generated certificate-results transaction with time.Now(): hash VALUES differ between runs,
// every oracle compares nodes within one run.
package nodesim

import (
	"encoding/json"
	"fmt"
	"math"
	"math/rand/v2"
	"os"
	"path/filepath"
	"sort"
	"sync/atomic"
	"time"

	"github.com/canopy-network/canopy/bft"
	"github.com/canopy-network/canopy/controller"
	"github.com/canopy-network/canopy/fsm"
	"github.com/canopy-network/canopy/lib"
	"github.com/canopy-network/canopy/lib/crypto"
	"github.com/canopy-network/canopy/store"
	"github.com/cockroachdb/pebble/v2"
	"github.com/cockroachdb/pebble/v2/vfs"
)

// Sim hosts the nodes of one case.
type Sim struct {
	Nodes  []*Node
	active *Node
	Log    lib.LoggerI
	// Purges counts block cache purges (evidence)
	Purges int
	// WarmSwitch: when true Activate does NOT purge (used only to demonstrate why the purge is needed)
	WarmSwitch bool
}

// NewSim creates an empty simulation.
func NewSim() *Sim { return &Sim{Log: lib.NewNullLogger()} }

// Close closes all nodes.
func (s *Sim) Close() {
	if produceHung.Load() {
		return // a ProduceProposal call is still spinning inside a controller: closing its store would only crash the report
	}
	for _, n := range s.Nodes {
		n.Close()
	}
	store.VerifPurgeBlockCache()
}

// Activate makes n the node whose "process" is running: the process-wide block cache is purged on every switch.
func (s *Sim) Activate(n *Node) {
	if s.active == n {
		return
	}
	s.active = n
	if !s.WarmSwitch {
		store.VerifPurgeBlockCache()
		s.Purges++
	}
}

// NodeOpts configures a node.
type NodeOpts struct {
	Name      string
	ChainID   uint64 // default 1
	NetworkID uint64 // default 1
	Genesis   *fsm.GenesisState
	Key       crypto.PrivateKeyI // node (validator) key, BLS
	Root      *Node              // root-chain node this node's root-chain manager looks at; nil = the node itself (own root)
	Mutate    func(*lib.Config)
	FS        *vfs.MemFS // optional: start from this file system (a CloneFS() of another node) instead of an empty one
}

// Node is one full node.
type Node struct {
	Sim   *Sim
	Name  string
	Cfg   lib.Config
	FS    *vfs.MemFS
	Store *store.Store
	C     *controller.Controller
	RC    *RC
	Key   crypto.PrivateKeyI
	root  *Node
	dir   string
	// ApproveList: the node votes on governance proposals by its proposals.json approve list (APPROVE_LIST mode, what a
	// validator does during the first rounds of a height) instead of rejecting all (the mode of a node whose BFT never started)
	ApproveList bool
	// TxSink: certificate-results transactions this node submitted to its root chain (bytes as they entered the root mempool)
	Submitted [][]byte
}

// NewNode creates a node at height 1 (genesis applied) and registers it with the simulation.
func (s *Sim) NewNode(o NodeOpts) (*Node, error) {
	cfg := lib.DefaultConfig()
	if o.ChainID == 0 {
		o.ChainID = 1
	}
	if o.NetworkID == 0 {
		o.NetworkID = 1
	}
	cfg.ChainId, cfg.NetworkID = o.ChainID, o.NetworkID
	cfg.LazyMempoolCheckFrequencyS = 0
	cfg.RunVDF = false
	cfg.Headless = true
	// DefaultConfig draws a random compaction interval (500-600); keep runs a function of the seed and avoid the store's
	// background compaction goroutine outliving a closed node (see h/chainsim)
	cfg.StoreConfig.LSSCompactionInterval = 0
	dir, err := os.MkdirTemp("", "nodesim-")
	if err != nil {
		return nil, err
	}
	cfg.DataDirPath = dir
	if o.Mutate != nil {
		o.Mutate(&cfg)
	}
	gbz, err := json.Marshal(o.Genesis)
	if err != nil {
		return nil, err
	}
	if err = os.WriteFile(filepath.Join(dir, lib.GenesisFilePath), gbz, 0o644); err != nil {
		return nil, err
	}
	_ = os.WriteFile(filepath.Join(dir, lib.ProposalsFilePath), []byte("{}"), 0o644)
	_ = os.WriteFile(filepath.Join(dir, lib.PollsFilePath), []byte("{}"), 0o644)
	fs := o.FS
	if fs == nil {
		fs = vfs.NewCrashableMem()
	}
	n := &Node{Sim: s, Name: o.Name, Cfg: cfg, FS: fs, Key: o.Key, root: o.Root, dir: dir}
	s.Nodes = append(s.Nodes, n)
	s.Activate(n)
	if err = n.open(); err != nil {
		return nil, err
	}
	return n, nil
}

// open (re-)opens the store on the node's file system and builds FSM + controller like cmd/cli does, minus Start().
func (n *Node) open() error {
	st, e := store.VerifOpenWithFS(n.FS, "db", 0, n.Cfg, n.Sim.Log)
	if e != nil {
		return e
	}
	n.Store = st
	sm, e := fsm.New(n.Cfg, st, nil, nil, n.Sim.Log)
	if e != nil {
		return e
	}
	c, e := controller.New(sm, n.Cfg, n.Key, nil, n.Sim.Log)
	if e != nil {
		return e
	}
	n.C = c
	root := n.root
	if root == nil {
		root = n
	}
	// a restart keeps the configuration of the root-chain manager but not its cache content
	prev := n.RC
	n.RC = &RC{self: n, rootNode: root, CacheDex: true}
	if prev != nil {
		n.RC.CacheDex, n.RC.DropTx, n.RC.Calls = prev.CacheDex, prev.DropTx, prev.Calls
	}
	c.RCManager = n.RC
	if n.ApproveList {
		c.Consensus.VerifSetProposalVoteDeadline(math.MaxInt64 / 2)
	}
	n.RefreshConsensus()
	// Controller.Start() runs one mempool check once the root chain info is available; it also installs Mempool.stop
	reset := c.SetFSMInConsensusModeForProposals()
	e = c.Mempool.CheckMempool()
	reset()
	c.Mempool.FSM.Reset()
	if e != nil {
		return e
	}
	return nil
}

// RefreshConsensus loads Consensus.ValidatorSet / CommitteeData the way BFT.Start / NewHeight do.
func (n *Node) RefreshConsensus() {
	c := n.C
	vs, err := c.LoadCommittee(c.LoadRootChainId(c.ChainHeight()), c.RootChainHeight())
	if err == nil {
		c.Consensus.ValidatorSet = vs
	}
	if cd, err := c.LoadCommitteeData(); err == nil {
		c.Consensus.CommitteeData = cd
	}
	c.Consensus.View.Height = c.ChainHeight()
	c.Consensus.View.RootHeight = c.RootChainHeight()
}

// Close releases the node.
func (n *Node) Close() {
	n.closeStore()
	if n.dir != "" {
		_ = os.RemoveAll(n.dir)
		n.dir = ""
	}
}

func (n *Node) closeStore() {
	if n.C != nil && n.C.Mempool != nil && n.C.Mempool.FSM != nil {
		n.C.Mempool.FSM.Discard()
	}
	if n.Store != nil {
		_ = n.Store.Close()
		n.Store = nil
	}
	n.C = nil
}

// Restart closes the store and re-opens the node from its file system (fsm.New + controller.New): a process restart.
// The mempool content is lost, like in production.
func (n *Node) Restart() error {
	n.Sim.active = nil // a new process: cold block cache
	n.Sim.Activate(n)
	n.closeStore()
	return n.open()
}

// CloneFS returns an independent copy of the node's file system in its committed state (like copying the data directory
// of a stopped node); NodeOpts.FS starts another node from it.
func (n *Node) CloneFS() (*vfs.MemFS, error) {
	if err := n.Store.DB().LogData(nil, pebble.Sync); err != nil {
		return nil, err
	}
	return n.FS.CrashClone(vfs.CrashCloneCfg{UnsyncedDataPercent: 100, RNG: rand.New(rand.NewPCG(1, 2))}), nil
}

// CloneOf copies an already cloned file system once more (a snapshot can seed several nodes).
func CloneOf(fs *vfs.MemFS) *vfs.MemFS {
	return fs.CrashClone(vfs.CrashCloneCfg{UnsyncedDataPercent: 100, RNG: rand.New(rand.NewPCG(1, 2))})
}

// Height is the height of the next block.
func (n *Node) Height() uint64 { return n.C.FSM.Height() }

// Version is the committed store version.
func (n *Node) Version() uint64 { return n.Store.Version() }

// RootNode returns the node whose FSM serves as this node's root chain.
func (n *Node) RootNode() *Node {
	if n.root == nil {
		return n
	}
	return n.root
}

// AddTx offers one transaction to the node's mempool through the handler ListenForTx uses.
func (n *Node) AddTx(tx []byte) lib.ErrorI {
	n.Sim.Activate(n)
	return n.C.Mempool.HandleTransactions(tx)
}

// SetApproveList switches the node's governance voting mode (kept across restarts).
func (n *Node) SetApproveList(on bool) {
	n.ApproveList = on
	d := int64(0)
	if on {
		d = math.MaxInt64 / 2
	}
	n.C.Consensus.VerifSetProposalVoteDeadline(d)
}

// ApproveProposal adds a governance proposal transaction to the node's proposals.json approve list (keyed by the hex
// transaction hash, like the `proposals` admin command does)
func (n *Node) ApproveProposal(tx []byte, approve bool) error {
	p := fsm.GovProposals{}
	if err := p.NewFromFile(n.Cfg.DataDirPath); err != nil {
		return err
	}
	p[crypto.HashString(tx)] = fsm.GovProposalWithVote{Proposal: json.RawMessage(`{}`), Approve: approve}
	if err := p.SaveToFile(n.Cfg.DataDirPath); err != nil {
		return err
	}
	return nil
}

// Proposal is what a leader hands to the replicas.
type Proposal struct {
	Height        uint64
	RcBuildHeight uint64
	Block         []byte
	BlockHash     []byte
	Results       *lib.CertificateResult
}

// NoEvidence is the empty byzantine evidence.
func NoEvidence() *bft.ByzantineEvidence {
	return &bft.ByzantineEvidence{DSE: bft.DoubleSignEvidences{}}
}

// ProduceBound is how long Produce waits for Controller.ProduceProposal (normally well below a second) before it reports
// a hang. The proposal loop of the controller (loadProposalBlockLocked) spins while holding the controller lock when the
// cached proposal can never match the current proposal-vote configuration - a liveness failure, not a slow run.
var ProduceBound = 60 * time.Second

// produceHung: once a ProduceProposal call did not return, later calls fail at once (the spinning call still holds locks)
var produceHung atomic.Bool

// Produce = BFT.StartProposePhase's call of Controller.ProduceProposal (no evidence, no VDF).
func (n *Node) Produce() (*Proposal, lib.ErrorI) {
	n.Sim.Activate(n)
	if produceHung.Load() {
		return nil, lib.NewError(lib.CodeInvalidArgument, lib.ConsensusModule, "ProduceProposal HANGS (an earlier call in this process never returned)")
	}
	n.RefreshConsensus()
	type out struct {
		p *Proposal
		e lib.ErrorI
	}
	done := make(chan out, 1)
	c := n.C
	go func() {
		c.Lock()
		defer c.Unlock()
		h := c.FSM.Height()
		rc, blk, res, err := c.ProduceProposal(NoEvidence(), nil)
		if err != nil {
			done <- out{nil, err}
			return
		}
		hash, err := new(lib.Block).BytesToBlockHash(blk)
		if err != nil {
			done <- out{nil, err}
			return
		}
		done <- out{&Proposal{Height: h, RcBuildHeight: rc, Block: blk, BlockHash: hash, Results: res}, nil}
	}()
	select {
	case o := <-done:
		return o.p, o.e
	case <-time.After(ProduceBound):
		produceHung.Store(true)
		return nil, lib.NewError(lib.CodeInvalidArgument, lib.ConsensusModule, fmt.Sprintf("ProduceProposal HANGS: no return within %s (proposal vote config %v)", ProduceBound, n.ApproveList))
	}
}

// Validate = BFT.StartProposeVotePhase's call of Controller.ValidateProposal; on success the block result is cached in
// Consensus.BlockResult like the BFT does (HandlePeerBlock then commits without re-executing).
func (n *Node) Validate(rcBuildHeight uint64, qc *lib.QuorumCertificate) (*lib.BlockResult, lib.ErrorI) {
	n.Sim.Activate(n)
	n.RefreshConsensus()
	n.C.Lock()
	defer n.C.Unlock()
	res, err := n.C.ValidateProposal(rcBuildHeight, CloneQC(qc), NoEvidence())
	if err != nil {
		// BFT.RoundInterrupt()
		n.C.Consensus.BlockResult = nil
		n.C.ResetFSM()
		return nil, err
	}
	n.C.Consensus.BlockResult = res
	return res, nil
}

// AbandonRound = BFT.RoundInterrupt(): forget the validated proposal and reset the FSM.
func (n *Node) AbandonRound() {
	n.Sim.Activate(n)
	n.C.Lock()
	defer n.C.Unlock()
	n.C.Consensus.BlockResult = nil
	n.C.ResetFSM()
}

// Deliver hands a certificate (with block) to Controller.HandlePeerBlock as ListenForBlock (sync=false) or
// Sync.processQueue (sync=true; the controller is in syncing mode while it runs) do. The message goes through
// Marshal/Unmarshal like on the wire.
func (n *Node) Deliver(qc *lib.QuorumCertificate, sync bool) (*lib.QuorumCertificate, lib.ErrorI) {
	n.Sim.Activate(n)
	msg := &lib.BlockMessage{ChainId: n.Cfg.ChainId, BlockAndCertificate: qc, Time: 1_700_000_000_000_000}
	bz, err := lib.Marshal(msg)
	if err != nil {
		return nil, err
	}
	wire := new(lib.BlockMessage)
	if err = lib.Unmarshal(bz, wire); err != nil {
		return nil, err
	}
	n.C.Lock()
	defer n.C.Unlock()
	if sync {
		n.C.Syncing().Store(true)
		n.Store.SetSyncing(true)
		defer func() {
			n.C.Syncing().Store(false)
			if n.Store != nil {
				n.Store.SetSyncing(false)
			}
		}()
	}
	out, err := n.C.HandlePeerBlock(wire, sync)
	if err == nil {
		// ListenForBlock -> ResetBFT -> NewHeight: next height
		n.drain()
	}
	return out, err
}

func (n *Node) drain() {
	for len(n.C.Consensus.ResetBFT) > 0 {
		<-n.C.Consensus.ResetBFT
	}
}

// FinishSync does what Controller.finishSyncing does to the mempool after the last synced block (the controller method
// itself also starts goroutines and is unexported).
func (n *Node) FinishSync() {
	n.Sim.Activate(n)
	c := n.C
	c.Mempool.L.Lock()
	c.Mempool.Clear()
	c.Mempool.FSM.Discard()
	if m, err := c.FSM.Copy(); err == nil {
		c.Mempool.FSM = m
	}
	_ = c.Mempool.CheckMempool()
	c.Mempool.FSM.Reset()
	c.Mempool.L.Unlock()
}

// NotifyRootUpdate = Controller.UpdateRootChainInfo for a new root-chain height (invalidates the cached proposal).
func (n *Node) NotifyRootUpdate() {
	n.Sim.Activate(n)
	root := n.RootNode()
	n.C.UpdateRootChainInfo(&lib.RootChainInfo{RootChainId: root.Cfg.ChainId, Height: root.C.FSM.Height(), ValidatorSet: &lib.ConsensusValidators{}})
	n.drain()
}

// Serve returns what the node answers to a block request for height h (ListenForBlockRequests -> LoadCertificate).
func (n *Node) Serve(h uint64) (*lib.QuorumCertificate, lib.ErrorI) {
	n.Sim.Activate(n)
	n.C.Lock()
	defer n.C.Unlock()
	return n.C.LoadCertificate(h)
}

// Scan returns the node's complete working state (== committed state when nothing is pending).
func (n *Node) Scan() (map[string][]byte, error) {
	n.Sim.Activate(n)
	it, e := n.C.FSM.Iterator(nil)
	if e != nil {
		return nil, e
	}
	defer it.Close()
	out := map[string][]byte{}
	for ; it.Valid(); it.Next() {
		out[string(append([]byte(nil), it.Key()...))] = append([]byte(nil), it.Value()...)
	}
	return out, nil
}

// CommittedScan returns the complete state as of the last committed version through a fresh read-only view.
func (n *Node) CommittedScan() (map[string][]byte, error) {
	n.Sim.Activate(n)
	ro, e := n.Store.NewReadOnly(n.Store.Version())
	if e != nil {
		return nil, e
	}
	defer ro.Discard()
	it, e := ro.Iterator(nil)
	if e != nil {
		return nil, e
	}
	defer it.Close()
	out := map[string][]byte{}
	for ; it.Valid(); it.Next() {
		out[string(append([]byte(nil), it.Key()...))] = append([]byte(nil), it.Value()...)
	}
	return out, nil
}

// ScanDigest is a canonical rendering of a scan.
func ScanDigest(m map[string][]byte) string {
	ks := make([]string, 0, len(m))
	for k := range m {
		ks = append(ks, k)
	}
	sort.Strings(ks)
	h := crypto.Hash(nil)
	for _, k := range ks {
		h = crypto.Hash(append(append(append([]byte{}, h...), []byte(k)...), m[k]...))
	}
	return lib.BytesToString(h)
}

// LastHeader returns the header of the last committed block (nil at genesis).
func (n *Node) LastHeader() *lib.BlockHeader {
	n.Sim.Activate(n)
	if n.Height() <= 1 {
		return nil
	}
	b, err := n.C.FSM.LoadBlock(n.Height() - 1)
	if err != nil || b == nil {
		return nil
	}
	return b.BlockHeader
}

// Committee returns the committee that certifies this node's chain at the given root height.
func (n *Node) Committee(rootHeight uint64) (lib.ValidatorSet, lib.ErrorI) {
	n.Sim.Activate(n)
	return n.C.LoadCommittee(n.C.LoadRootChainId(n.C.ChainHeight()), rootHeight)
}

// String describes the node.
func (n *Node) String() string {
	return fmt.Sprintf("%s(chain %d h=%d)", n.Name, n.Cfg.ChainId, n.Height())
}
