package nodesim

import (
	"fmt"

	"github.com/canopy-network/canopy/fsm"
	"github.com/canopy-network/canopy/lib"
	"github.com/canopy-network/canopy/lib/crypto"

	"verif/h/chainsim"
	"verif/h/keys"
)

// Group is a set of nodes of ONE chain that advance in lock-step, one certified block per Step.
type Group struct {
	Sim   *Sim
	Ring  KeyRing
	Nodes []*Node
	// Certified[h-1] = the certificate (with block and results) the committee signed for height h
	Certified []*lib.QuorumCertificate
	Proposals []*Proposal
}

// Path says how a node gets to commit the certified block.
type Path int

const (
	PathValidateCommit Path = iota // ValidateProposal, then HandlePeerBlock uses the cached result
	PathReplay                     // HandlePeerBlock without prior validation (CommitCertificate(blockResult=nil))
	PathSync                       // HandlePeerBlock(syncing=true) with the controller in syncing mode
	PathSkip                       // the node does not see this block (caller feeds it later)
)

// StepOpts describes one height.
type StepOpts struct {
	Proposer int          // index into Nodes of the leader
	Signers  []int        // committee indexes that sign; nil = everyone
	Round    uint64       // round in the certificate header
	Paths    map[int]Path // per node index; default PathValidateCommit (the leader validates its own proposal too, like every replica)
	// BeforeCommit, when set, runs for node i right before its HandlePeerBlock (perturbations of irrelevant state)
	BeforeCommit func(i int, n *Node)
}

// StepResult reports one height.
type StepResult struct {
	Height      uint64
	Proposal    *Proposal
	QC          *lib.QuorumCertificate
	Committee   lib.ValidatorSet
	Signers     []int
	ProduceErr  lib.ErrorI
	ValidateErr map[int]lib.ErrorI
	CommitErr   map[int]lib.ErrorI
	Validated   map[int]*lib.BlockResult
}

// OK reports whether every participating node produced/validated/committed.
func (r *StepResult) OK() bool {
	return r.ProduceErr == nil && len(r.ValidateErr) == 0 && len(r.CommitErr) == 0
}

// Err summarizes the failures.
func (r *StepResult) Err() error {
	if r.OK() {
		return nil
	}
	return fmt.Errorf("height %d: produce=%v validate=%v commit=%v", r.Height, r.ProduceErr, r.ValidateErr, r.CommitErr)
}

// Certify lets node `proposer` produce a proposal and has the committee sign the PRECOMMIT_VOTE certificate for it.
func (g *Group) Certify(proposer int, signers []int, round uint64) (*StepResult, error) {
	ld := g.Nodes[proposer]
	res := &StepResult{Height: ld.Height(), ValidateErr: map[int]lib.ErrorI{}, CommitErr: map[int]lib.ErrorI{}, Validated: map[int]*lib.BlockResult{}}
	p, e := ld.Produce()
	if e != nil {
		res.ProduceErr = e
		return res, nil
	}
	res.Proposal = p
	view := ld.ViewFor(lib.Phase_PRECOMMIT_VOTE, round)
	vs, e := ld.Committee(view.RootHeight)
	if e != nil {
		return nil, fmt.Errorf("load committee: %v", e)
	}
	res.Committee = vs
	if signers == nil {
		signers = AllSigners(vs)
	}
	res.Signers = signers
	qc := NewQC(p, view, ld.C.PublicKey)
	if err := Sign(qc, vs, g.Ring, signers); err != nil {
		return nil, err
	}
	res.QC = qc
	return res, nil
}

// Step runs one height on all nodes.
func (g *Group) Step(o StepOpts) (*StepResult, error) {
	res, err := g.Certify(o.Proposer, o.Signers, o.Round)
	if err != nil || res.ProduceErr != nil {
		return res, err
	}
	path := func(i int) Path {
		if p, ok := o.Paths[i]; ok {
			return p
		}
		return PathValidateCommit
	}
	// replicas validate first (PROPOSE_VOTE phase)
	for i, n := range g.Nodes {
		if path(i) != PathValidateCommit {
			continue
		}
		br, e := n.Validate(res.Proposal.RcBuildHeight, res.QC)
		if e != nil {
			res.ValidateErr[i] = e
			continue
		}
		res.Validated[i] = br
	}
	// commit (COMMIT_PROCESS phase / gossip); the leader last, like a node that receives its own block back
	order := make([]int, 0, len(g.Nodes))
	for i := range g.Nodes {
		if i != o.Proposer {
			order = append(order, i)
		}
	}
	order = append(order, o.Proposer)
	for _, i := range order {
		n := g.Nodes[i]
		pt := path(i)
		if pt == PathSkip {
			continue
		}
		if _, bad := res.ValidateErr[i]; bad {
			continue
		}
		if o.BeforeCommit != nil {
			o.BeforeCommit(i, n)
		}
		if _, e := n.Deliver(CloneQC(res.QC), pt == PathSync); e != nil {
			res.CommitErr[i] = e
		}
	}
	if res.OK() {
		g.Certified = append(g.Certified, res.QC)
		g.Proposals = append(g.Proposals, res.Proposal)
	}
	return res, nil
}

// TwoChainGenesis builds the genesis pair of the two-chain mode: root chain 1 (own root) whose validators serve
// committees 1 and 2, nested chain 2 with RootChainId=1; liquidity pools on both sides when dex is set.
func TwoChainGenesis(vals []chainsim.ValSpec, accts []chainsim.AcctSpec, dex bool, tweak func(root, nested *fsm.Params)) (root, nested *fsm.GenesisState) {
	rp, np := fsm.DefaultParams(), fsm.DefaultParams()
	np.Consensus.RootChainId = 1
	if tweak != nil {
		tweak(rp, np)
	}
	rv := make([]chainsim.ValSpec, len(vals))
	nv := make([]chainsim.ValSpec, len(vals))
	for i, v := range vals {
		rv[i], nv[i] = v, v
		if rv[i].Committees == nil {
			rv[i].Committees = []uint64{1, 2}
		}
		nv[i].Committees = []uint64{2}
	}
	var rpools, npools []*fsm.Pool
	if dex {
		rpools = []*fsm.Pool{{Id: 2 + fsm.LiquidityPoolAddend, Amount: 1_000_000_000}}
		npools = []*fsm.Pool{{Id: 1 + fsm.LiquidityPoolAddend, Amount: 1_000_000_000}}
	}
	root = chainsim.BuildGenesis(1, rv, accts, rpools, rp)
	nested = chainsim.BuildGenesis(2, nv, accts, npools, np)
	return
}

// Addr is the address of the i-th key of a kind (0 BLS, 1 ed25519, 2 secp256k1, 3 eth).
func Addr(kind, i int) []byte { return keys.Kind(kind, i).PublicKey().Address().Bytes() }

// PubAddr converts a public key to its address bytes.
func PubAddr(pub []byte) []byte {
	pk, err := crypto.NewPublicKeyFromBytes(pub)
	if err != nil {
		return nil
	}
	return pk.Address().Bytes()
}
