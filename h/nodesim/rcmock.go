package nodesim

import (
	"bytes"
	"slices"

	"github.com/canopy-network/canopy/fsm"
	"github.com/canopy-network/canopy/lib"
	"github.com/canopy-network/canopy/lib/crypto"
	"github.com/canopy-network/canopy/store"
)

// RC is the stand-in for cmd/rpc.RCManager (lib.RCManagerI). In production every call is an HTTP request to the root
// chain's RPC server (or an answer from the last pushed RootChainInfo); each method below makes the same FSM / indexer
// call as the RPC handler in cmd/rpc/query.go that serves the request, against the ROOT node's controller FSM
// (TimeMachine(height), like Server.readOnlyState). Trusted base: the JSON transport of the answers (except for
// Transaction(), which is round-tripped through JSON), and "the pushed RootChainInfo is current".
type RC struct {
	self     *Node
	rootNode *Node
	// CacheDex mirrors RCManager.dexBatch (always on in production, default on here): the same *DexBatch OBJECT is returned for
	// repeated (height, committee, withPoints=false) queries - callers mutate it (DexBatch.Hash() fills the receipt hash of an
	// empty batch), so hit/miss patterns are observable. Switching it off models a transport that always decodes a fresh object.
	CacheDex bool
	dex      struct {
		height, committee uint64
		result            *lib.DexBatch
		ok                bool
	}
	// DropTx: when set, Transaction() refuses (root chain unreachable)
	DropTx bool
	// Calls counts queries per method (evidence / self-test)
	Calls map[string]int
}

var _ lib.RCManagerI = (*RC)(nil)

func (r *RC) count(s string) {
	if r.Calls == nil {
		r.Calls = map[string]int{}
	}
	r.Calls[s]++
}

func (r *RC) rootFSM() *fsm.StateMachine { return r.rootNode.C.FSM }

// at runs cb on a read-only view of the root chain at height (0 = latest), like Server.readOnlyState
func (r *RC) at(height uint64, cb func(sm *fsm.StateMachine) lib.ErrorI) lib.ErrorI {
	defer r.enterRoot()()
	root := r.rootFSM()
	sm, err := root.TimeMachine(height)
	if err != nil {
		return lib.ErrTimeMachine(err)
	}
	if sm != root {
		defer sm.Discard()
	}
	return cb(sm)
}

// enterRoot: a query served by ANOTHER node runs in that node's process: purge the process-wide block cache before and
// after it so neither side sees the other's cached blocks
func (r *RC) enterRoot() func() {
	if r.rootNode == r.self {
		return func() {}
	}
	store.VerifPurgeBlockCache()
	return store.VerifPurgeBlockCache
}

// Publish: no websocket subscribers in the simulation
func (r *RC) Publish(chainId uint64, info *lib.RootChainInfo) {}

// ChainIds: no subscribers
func (r *RC) ChainIds() []uint64 { return nil }

// GetHeight = height of the last pushed RootChainInfo = root FSM height after its last commit
func (r *RC) GetHeight(rootChainId uint64) uint64 {
	r.count("GetHeight")
	return r.rootFSM().Height()
}

// GetRootChainInfo = Server.RootChainInfo
func (r *RC) GetRootChainInfo(rootChainId, chainId uint64) (*lib.RootChainInfo, lib.ErrorI) {
	r.count("GetRootChainInfo")
	defer r.enterRoot()()
	return r.rootFSM().LoadRootChainInfo(chainId, r.rootFSM().Height())
}

// GetValidatorSet = Server.ValidatorSet (controller.LoadCommittee passes (rootChainId, chainId, rootHeight))
func (r *RC) GetValidatorSet(rootChainId, id, rootHeight uint64) (vs lib.ValidatorSet, err lib.ErrorI) {
	r.count("GetValidatorSet")
	err = r.at(rootHeight, func(sm *fsm.StateMachine) lib.ErrorI {
		members, e := sm.GetCommitteeMembers(id)
		if e != nil {
			return e
		}
		// the client rebuilds the set from the transported list (Client.ValidatorSet)
		vs, e = lib.NewValidatorSet(members.ValidatorSet)
		return e
	})
	return
}

// GetLotteryWinner = Server.Lottery
func (r *RC) GetLotteryWinner(rootChainId, height, id uint64) (p *lib.LotteryWinner, err lib.ErrorI) {
	r.count("GetLotteryWinner")
	err = r.at(height, func(sm *fsm.StateMachine) (e lib.ErrorI) {
		p, e = sm.LotteryWinner(id)
		return
	})
	return
}

// GetOrders = RootChainInfo.Orders (FSM.GetOrderBook) / Server.Orders
func (r *RC) GetOrders(rootChainId, rootHeight, id uint64) (b *lib.OrderBook, err lib.ErrorI) {
	r.count("GetOrders")
	err = r.at(rootHeight, func(sm *fsm.StateMachine) (e lib.ErrorI) {
		b, e = sm.GetOrderBook(id)
		return
	})
	return
}

// GetOrder = Server.Order
func (r *RC) GetOrder(rootChainId, height uint64, orderId string, chainId uint64) (o *lib.SellOrder, err lib.ErrorI) {
	r.count("GetOrder")
	id, err := lib.StringToBytes(orderId)
	if err != nil {
		return nil, err
	}
	err = r.at(height, func(sm *fsm.StateMachine) (e lib.ErrorI) {
		o, e = sm.GetOrder(id, chainId)
		return
	})
	return
}

// GetDexBatch = Server.DexBatch (locked batch), with RCManager's optional one-entry cache
func (r *RC) GetDexBatch(rootChainId, height, committee uint64, withPoints bool) (b *lib.DexBatch, err lib.ErrorI) {
	r.count("GetDexBatch")
	if r.CacheDex && !withPoints && r.dex.ok && r.dex.height == height && r.dex.committee == committee {
		return r.dex.result, nil
	}
	err = r.at(height, func(sm *fsm.StateMachine) (e lib.ErrorI) {
		b, e = sm.GetDexBatch(committee, true, withPoints)
		return
	})
	if err != nil {
		return nil, err
	}
	// transported: the caller owns a fresh object
	bz, err := lib.Marshal(b)
	if err != nil {
		return nil, err
	}
	b = new(lib.DexBatch)
	if err = lib.Unmarshal(bz, b); err != nil {
		return nil, err
	}
	if r.CacheDex && !withPoints {
		r.dex.height, r.dex.committee, r.dex.result, r.dex.ok = height, committee, b, true
	}
	return b, nil
}

// IsValidDoubleSigner = Server.IsValidDoubleSigner including the "last certificate not yet indexed" rule
func (r *RC) IsValidDoubleSigner(rootChainId, height uint64, address string) (*bool, lib.ErrorI) {
	r.count("IsValidDoubleSigner")
	addr, err := lib.StringToBytes(address)
	if err != nil {
		return nil, err
	}
	defer r.enterRoot()()
	st, err := store.NewStoreWithDB(r.rootNode.Cfg, r.rootNode.Store.DB(), nil, r.rootNode.Sim.Log)
	if err != nil {
		return nil, lib.ErrNewStore(err)
	}
	defer st.Discard()
	if height == 0 {
		height = st.Version() - 1
	}
	res := false
	qc, err := st.GetQCByHeight(st.Version() - 1)
	if err != nil {
		return nil, err
	}
	if qc.Results != nil && qc.Results.SlashRecipients != nil {
		for _, ds := range qc.Results.SlashRecipients.DoubleSigners {
			pk, e := crypto.NewPublicKeyFromBytes(ds.Id)
			if e != nil {
				continue
			}
			if bytes.Equal(pk.Address().Bytes(), addr) && slices.Contains(ds.Heights, height) {
				return &res, nil
			}
		}
	}
	res, err = st.IsValidDoubleSigner(addr, height)
	if err != nil {
		return nil, err
	}
	return &res, nil
}

// GetMinimumEvidenceHeight = Server.MinimumEvidenceHeight
func (r *RC) GetMinimumEvidenceHeight(rootChainId, rootHeight uint64) (p *uint64, err lib.ErrorI) {
	r.count("GetMinimumEvidenceHeight")
	err = r.at(rootHeight, func(sm *fsm.StateMachine) lib.ErrorI {
		h, e := sm.LoadMinimumEvidenceHeight()
		p = &h
		return e
	})
	return
}

// GetCheckpoint = Server.Checkpoint
func (r *RC) GetCheckpoint(rootChainId, height, id uint64) (lib.HexBytes, lib.ErrorI) {
	r.count("GetCheckpoint")
	defer r.enterRoot()()
	st, err := store.NewStoreWithDB(r.rootNode.Cfg, r.rootNode.Store.DB(), nil, r.rootNode.Sim.Log)
	if err != nil {
		return nil, lib.ErrNewStore(err)
	}
	defer st.Discard()
	return st.GetCheckpoint(id, height)
}

// Transaction = Client.Transaction -> Server.Transaction -> submitTxs -> Controller.SendTxMsgs -> ListenForTx ->
// Mempool.HandleTransactions on the ROOT node: JSON round trip, protobuf marshal, mempool admission.
func (r *RC) Transaction(rootChainId uint64, tx lib.TransactionI) (*string, lib.ErrorI) {
	r.count("Transaction")
	if r.DropTx {
		return nil, lib.ErrNotSubscribed()
	}
	jz, err := lib.MarshalJSON(tx)
	if err != nil {
		return nil, err
	}
	wire := new(lib.Transaction)
	if err = lib.UnmarshalJSON(jz, wire); err != nil {
		return nil, err
	}
	bz, err := lib.Marshal(wire)
	if err != nil {
		return nil, err
	}
	r.self.Submitted = append(r.self.Submitted, bz)
	if err = r.rootNode.C.Mempool.HandleTransactions(bz); err != nil {
		return nil, err
	}
	h := crypto.HashString(bz)
	return &h, nil
}
