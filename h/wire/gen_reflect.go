package wire

// gen_reflect.go: schema-driven (protoreflect) tools that work on ANY generated protobuf message:
//
//   - Fill:      populate a message with structurally plausible random content (every field incl. nested and repeated ones)
//   - Sites:     enumerate every place of a populated message where a single-field mutation can be applied (set and unset
//                fields, list elements, list shape, the inside of a google.protobuf.Any payload)
//   - Site.Mutate: apply one mutation to a CLONE of the message - the mutant differs from the original in exactly that field
//
// All randomness comes from a Drawer (rapid draws or a seeded PRNG), nothing else.

import (
	"fmt"
	"reflect"
	"strconv"
	"strings"

	"google.golang.org/protobuf/proto"
	"google.golang.org/protobuf/reflect/protoreflect"
	"google.golang.org/protobuf/reflect/protoregistry"
	"google.golang.org/protobuf/types/known/anypb"
)

// Drawer is the source of every choice.
type Drawer interface {
	// Intn returns a value in [0,n). n >= 1.
	Intn(n int, label string) int
}

// step addresses one hop inside a message: a field, optionally an element of a repeated field, optionally "inside the Any".
type step struct {
	fd  protoreflect.FieldDescriptor
	idx int  // -1: the field itself
	any bool // descend into the unpacked payload of an Any (fd is the Any-typed field)
}

// Site is one place where a single-field mutation can be applied.
type Site struct {
	path []step
	fd   protoreflect.FieldDescriptor
	idx  int    // >= 0: element of a repeated scalar/bytes field; -1 otherwise
	Kind string // "uint" "bool" "enum" "string" "bytes" "msg" "list"
	Set  bool   // the field is populated in the original
	Len  int    // for "list": number of elements; for "bytes"/"string": length
}

// Path renders the site as dotted proto field names, e.g. "qc.header.round" or "last_double_sign_evidence[1].vote_a.block_hash".
func (s Site) Path() string {
	var b strings.Builder
	for _, st := range s.path {
		if b.Len() > 0 {
			b.WriteByte('.')
		}
		b.WriteString(string(st.fd.Name()))
		if st.idx >= 0 {
			fmt.Fprintf(&b, "[%d]", st.idx)
		}
		if st.any {
			b.WriteString(".@any")
		}
	}
	if b.Len() > 0 {
		b.WriteByte('.')
	}
	b.WriteString(string(s.fd.Name()))
	if s.idx >= 0 {
		fmt.Fprintf(&b, "[%d]", s.idx)
	}
	return b.String()
}

// Field renders the path without list indexes (a stable class label): "last_double_sign_evidence.vote_a.block_hash".
func (s Site) Field() string {
	p := s.Path()
	var b strings.Builder
	skip := false
	for _, r := range p {
		switch {
		case r == '[':
			skip = true
		case r == ']':
			skip = false
		case !skip:
			b.WriteRune(r)
		}
	}
	return b.String()
}

// Top is the name of the top-level field the site lives in.
func (s Site) Top() string {
	if len(s.path) > 0 {
		return string(s.path[0].fd.Name())
	}
	return string(s.fd.Name())
}

// Sites enumerates every mutation site of m (deterministic order: field number order, depth first).
func Sites(m proto.Message) []Site {
	var out []Site
	walkSites(m.ProtoReflect(), nil, &out, 0)
	return out
}

func kindOf(fd protoreflect.FieldDescriptor) string {
	switch fd.Kind() {
	case protoreflect.BoolKind:
		return "bool"
	case protoreflect.EnumKind:
		return "enum"
	case protoreflect.StringKind:
		return "string"
	case protoreflect.BytesKind:
		return "bytes"
	case protoreflect.MessageKind, protoreflect.GroupKind:
		return "msg"
	case protoreflect.FloatKind, protoreflect.DoubleKind:
		return "float"
	default:
		return "uint"
	}
}

func walkSites(m protoreflect.Message, path []step, out *[]Site, depth int) {
	if depth > 12 {
		return
	}
	fds := m.Descriptor().Fields()
	for i := 0; i < fds.Len(); i++ {
		fd := fds.Get(i)
		if fd.IsMap() {
			continue // no map field in any message a peer can send
		}
		cp := func() []step { return append([]step(nil), path...) }
		if fd.IsList() {
			l := m.Get(fd).List()
			*out = append(*out, Site{path: cp(), fd: fd, idx: -1, Kind: "list", Set: l.Len() > 0, Len: l.Len()})
			for j := 0; j < l.Len(); j++ {
				if fd.Kind() == protoreflect.MessageKind {
					walkSites(l.Get(j).Message(), append(cp(), step{fd: fd, idx: j}), out, depth+1)
				} else {
					s := Site{path: cp(), fd: fd, idx: j, Kind: kindOf(fd), Set: true}
					if s.Kind == "bytes" {
						s.Len = len(l.Get(j).Bytes())
					}
					*out = append(*out, s)
				}
			}
			continue
		}
		s := Site{path: cp(), fd: fd, idx: -1, Kind: kindOf(fd), Set: m.Has(fd)}
		switch s.Kind {
		case "bytes":
			s.Len = len(m.Get(fd).Bytes())
		case "string":
			s.Len = len(m.Get(fd).String())
		}
		*out = append(*out, s)
		if s.Kind == "msg" && m.Has(fd) {
			sub := m.Get(fd).Message()
			walkSites(sub, append(cp(), step{fd: fd, idx: -1}), out, depth+1)
			if a, ok := sub.Interface().(*anypb.Any); ok {
				if inner, err := a.UnmarshalNew(); err == nil {
					walkSites(inner.ProtoReflect(), append(cp(), step{fd: fd, idx: -1, any: true}), out, depth+1)
				}
			}
		}
	}
}

// navigate returns the (mutable) message that directly contains the site's field inside root. When the path crosses an Any
// it returns the unpacked inner message and a function that re-packs it after the mutation.
func navigate(root protoreflect.Message, path []step) (protoreflect.Message, func()) {
	cur := root
	repack := func() {}
	for _, st := range path {
		var next protoreflect.Message
		if st.idx >= 0 {
			next = cur.Mutable(st.fd).List().Get(st.idx).Message()
		} else {
			next = cur.Mutable(st.fd).Message()
		}
		if st.any {
			a := next.Interface().(*anypb.Any)
			inner, err := a.UnmarshalNew()
			if err != nil {
				panic(err)
			}
			prev := repack
			repack = func() {
				bz, err := proto.MarshalOptions{Deterministic: true}.Marshal(inner)
				if err != nil {
					panic(err)
				}
				a.Value = bz
				prev()
			}
			next = inner.ProtoReflect()
		}
		cur = next
	}
	return cur, repack
}

// goField finds the Go struct field behind a proto field (needed for the nil / empty-non-nil distinction that
// protoreflect.Set normalises away).
func goField(m protoreflect.Message, fd protoreflect.FieldDescriptor) (reflect.Value, bool) {
	rv := reflect.ValueOf(m.Interface())
	if rv.Kind() != reflect.Ptr || rv.IsNil() {
		return reflect.Value{}, false
	}
	rv = rv.Elem()
	rt := rv.Type()
	want := strconv.Itoa(int(fd.Number()))
	for i := 0; i < rt.NumField(); i++ {
		parts := strings.Split(rt.Field(i).Tag.Get("protobuf"), ",")
		if len(parts) > 1 && parts[1] == want {
			return rv.Field(i), true
		}
	}
	return reflect.Value{}, false
}

// Ops lists the mutation operators applicable to the site.
func (s Site) Ops() []string {
	switch s.Kind {
	case "uint":
		return []string{"inc", "dec", "bit", "hostile", "zero"}
	case "bool":
		return []string{"flip"}
	case "enum":
		return []string{"other", "out-of-range"}
	case "string":
		if s.Len == 0 {
			return []string{"set"}
		}
		return []string{"append", "trunc", "char", "clear"}
	case "bytes":
		if s.Len == 0 {
			return []string{"one-byte", "hostile", "nil<->empty", "oversize"}
		}
		return []string{"flip", "trunc", "extend", "clear", "hostile", "last-byte", "oversize"}
	case "msg":
		if s.Set {
			return []string{"clear", "empty"}
		}
		return []string{"empty"}
	case "list":
		switch {
		case s.Len == 0:
			return []string{"append-zero", "nil<->empty"}
		case s.Len == 1:
			return []string{"drop", "dup", "append-zero"}
		default:
			return []string{"drop", "dup", "swap", "append-zero", "rotate"}
		}
	}
	return nil
}

// Mutate applies operator op at the site to a clone of m and returns the clone. ok=false when the operator would not
// change the Go value (the caller draws again). The returned description names what was done.
func (s Site) Mutate(m proto.Message, op string, d Drawer) (out proto.Message, desc string, ok bool) {
	out = proto.Clone(m)
	cont, repack := navigate(out.ProtoReflect(), s.path)
	fd := s.fd
	defer func() {
		if ok {
			repack()
		}
	}()
	desc = s.Path() + ":" + op
	if s.Kind == "list" {
		l := cont.Mutable(fd).List()
		n := l.Len()
		switch op {
		case "append-zero":
			l.Append(zeroElem(l, fd))
			return out, desc, true
		case "nil<->empty":
			gf, found := goField(cont, fd)
			if !found || gf.Kind() != reflect.Slice {
				return nil, desc, false
			}
			if gf.IsNil() {
				gf.Set(reflect.MakeSlice(gf.Type(), 0, 0))
			} else {
				gf.Set(reflect.Zero(gf.Type()))
			}
			return out, desc, true
		case "drop":
			i := d.Intn(n, "drop")
			vals := listVals(l)
			l.Truncate(0)
			for j, v := range vals {
				if j != i {
					l.Append(v)
				}
			}
			return out, fmt.Sprintf("%s(%d)", desc, i), true
		case "dup":
			i := d.Intn(n, "dup")
			l.Append(cloneVal(l.Get(i), fd))
			return out, fmt.Sprintf("%s(%d)", desc, i), true
		case "swap":
			i := d.Intn(n, "swapi")
			j := (i + 1 + d.Intn(n-1, "swapj")) % n
			a, b := cloneVal(l.Get(i), fd), cloneVal(l.Get(j), fd)
			if valEqual(a, b, fd) {
				return nil, desc, false
			}
			l.Set(i, b)
			l.Set(j, a)
			return out, fmt.Sprintf("%s(%d,%d)", desc, i, j), true
		case "rotate":
			vals := listVals(l)
			same := true
			for j := 1; j < n; j++ {
				if !valEqual(vals[0], vals[j], fd) {
					same = false
				}
			}
			if same {
				return nil, desc, false
			}
			l.Truncate(0)
			for j := 1; j < n; j++ {
				l.Append(vals[j])
			}
			l.Append(vals[0])
			return out, desc, true
		}
		return nil, desc, false
	}
	// scalar / bytes / message: read the current value
	get := func() protoreflect.Value {
		if s.idx >= 0 {
			return cont.Get(fd).List().Get(s.idx)
		}
		return cont.Get(fd)
	}
	set := func(v protoreflect.Value) {
		if s.idx >= 0 {
			cont.Mutable(fd).List().Set(s.idx, v)
		} else {
			cont.Set(fd, v)
		}
	}
	switch s.Kind {
	case "uint":
		cur := scalarU64(get(), fd)
		var nv uint64
		switch op {
		case "inc":
			nv = cur + 1
		case "dec":
			nv = cur - 1
		case "bit":
			nv = cur ^ (1 << uint(d.Intn(bitsOf(fd), "bit")))
		case "hostile":
			nv = HostileUints[d.Intn(len(HostileUints), "hostile")]
		case "zero":
			nv = 0
		}
		nv = clampTo(nv, fd)
		if nv == cur {
			return nil, desc, false
		}
		set(u64Value(nv, fd))
		return out, fmt.Sprintf("%s(%d->%d)", desc, cur, nv), true
	case "bool":
		set(protoreflect.ValueOfBool(!get().Bool()))
		return out, desc, true
	case "enum":
		cur := get().Enum()
		vals := fd.Enum().Values()
		var nv protoreflect.EnumNumber
		if op == "out-of-range" {
			nv = protoreflect.EnumNumber(100 + d.Intn(100, "enum"))
		} else {
			nv = vals.Get(d.Intn(vals.Len(), "enum")).Number()
		}
		if nv == cur {
			return nil, desc, false
		}
		set(protoreflect.ValueOfEnum(nv))
		return out, fmt.Sprintf("%s(%d->%d)", desc, cur, nv), true
	case "string":
		cur := get().String()
		nv := cur
		switch op {
		case "set", "append":
			nv = cur + string(rune('a'+d.Intn(26, "chr")))
		case "trunc":
			nv = cur[:len(cur)-1]
		case "char":
			i := d.Intn(len(cur), "pos")
			nv = cur[:i] + string(cur[i]^1) + cur[i+1:]
		case "clear":
			nv = ""
		}
		if nv == cur {
			return nil, desc, false
		}
		set(protoreflect.ValueOfString(nv))
		return out, desc, true
	case "bytes":
		cur := append([]byte(nil), get().Bytes()...)
		var nv []byte
		switch op {
		case "flip":
			nv = append([]byte(nil), cur...)
			nv[d.Intn(len(nv), "pos")] ^= 1 << uint(d.Intn(8, "bit"))
		case "last-byte":
			nv = append([]byte(nil), cur...)
			nv[len(nv)-1]++
		case "trunc":
			nv = append([]byte(nil), cur[:len(cur)-1]...)
		case "extend":
			nv = append(append([]byte(nil), cur...), byte(d.Intn(256, "b")))
		case "clear":
			nv = nil
		case "one-byte":
			nv = []byte{byte(d.Intn(256, "b"))}
		case "hostile":
			nv = Bytes(HostileLens[1+d.Intn(len(HostileLens)-1, "hlen")], HostileFills[d.Intn(len(HostileFills), "hfill")])
		case "oversize":
			// just beyond what a one-byte length prefix (store key segment) can express
			nv = Bytes([]int{256, 257, 300, 511, 512, 1024}[d.Intn(6, "olen")], HostileFills[d.Intn(len(HostileFills), "ofill")])
		case "nil<->empty":
			if s.idx >= 0 {
				return nil, desc, false
			}
			gf, found := goField(cont, fd)
			if !found || gf.Kind() != reflect.Slice {
				return nil, desc, false
			}
			if gf.IsNil() {
				gf.SetBytes([]byte{})
			} else {
				gf.Set(reflect.Zero(gf.Type()))
			}
			return out, desc, true
		}
		if string(nv) == string(cur) {
			return nil, desc, false
		}
		set(protoreflect.ValueOfBytes(nv))
		return out, fmt.Sprintf("%s(len %d->%d)", desc, len(cur), len(nv)), true
	case "msg":
		switch op {
		case "clear":
			cont.Clear(fd)
			return out, desc, true
		case "empty":
			if s.Set && proto.Size(cont.Get(fd).Message().Interface()) == 0 {
				return nil, desc, false
			}
			cont.Set(fd, protoreflect.ValueOfMessage(cont.NewField(fd).Message()))
			return out, desc, true
		}
	}
	return nil, desc, false
}

func listVals(l protoreflect.List) []protoreflect.Value {
	out := make([]protoreflect.Value, l.Len())
	for i := range out {
		out[i] = l.Get(i)
	}
	return out
}

func zeroElem(l protoreflect.List, fd protoreflect.FieldDescriptor) protoreflect.Value {
	if fd.Kind() == protoreflect.MessageKind {
		return l.NewElement()
	}
	if fd.Kind() == protoreflect.BytesKind {
		return protoreflect.ValueOfBytes([]byte{})
	}
	switch fd.Kind() {
	case protoreflect.StringKind:
		return protoreflect.ValueOfString("")
	case protoreflect.BoolKind:
		return protoreflect.ValueOfBool(false)
	case protoreflect.EnumKind:
		return protoreflect.ValueOfEnum(0)
	case protoreflect.FloatKind:
		return protoreflect.ValueOfFloat32(0)
	case protoreflect.DoubleKind:
		return protoreflect.ValueOfFloat64(0)
	}
	return u64Value(0, fd)
}

func cloneVal(v protoreflect.Value, fd protoreflect.FieldDescriptor) protoreflect.Value {
	switch fd.Kind() {
	case protoreflect.MessageKind:
		return protoreflect.ValueOfMessage(proto.Clone(v.Message().Interface()).ProtoReflect())
	case protoreflect.BytesKind:
		return protoreflect.ValueOfBytes(append([]byte(nil), v.Bytes()...))
	}
	return v
}

func valEqual(a, b protoreflect.Value, fd protoreflect.FieldDescriptor) bool {
	switch fd.Kind() {
	case protoreflect.MessageKind:
		return proto.Equal(a.Message().Interface(), b.Message().Interface())
	case protoreflect.BytesKind:
		return string(a.Bytes()) == string(b.Bytes())
	}
	return a.Interface() == b.Interface()
}

func bitsOf(fd protoreflect.FieldDescriptor) int {
	switch fd.Kind() {
	case protoreflect.Uint32Kind, protoreflect.Int32Kind, protoreflect.Sint32Kind, protoreflect.Fixed32Kind, protoreflect.Sfixed32Kind:
		return 32
	}
	return 64
}

func clampTo(v uint64, fd protoreflect.FieldDescriptor) uint64 {
	if bitsOf(fd) == 32 {
		return v & 0xFFFFFFFF
	}
	return v
}

func scalarU64(v protoreflect.Value, fd protoreflect.FieldDescriptor) uint64 {
	switch fd.Kind() {
	case protoreflect.Uint32Kind, protoreflect.Uint64Kind, protoreflect.Fixed32Kind, protoreflect.Fixed64Kind:
		return v.Uint()
	default:
		return clampTo(uint64(v.Int()), fd)
	}
}

func u64Value(v uint64, fd protoreflect.FieldDescriptor) protoreflect.Value {
	switch fd.Kind() {
	case protoreflect.Uint32Kind, protoreflect.Fixed32Kind:
		return protoreflect.ValueOfUint32(uint32(v))
	case protoreflect.Uint64Kind, protoreflect.Fixed64Kind:
		return protoreflect.ValueOfUint64(v)
	case protoreflect.Int32Kind, protoreflect.Sint32Kind, protoreflect.Sfixed32Kind:
		return protoreflect.ValueOfInt32(int32(uint32(v)))
	default:
		return protoreflect.ValueOfInt64(int64(v))
	}
}

// ---------------------------------------------------------------------------------------------------------------------
// Fill

// FillOpts tunes Fill.
type FillOpts struct {
	MaxDepth  int                                                                                     // nesting limit (default 5)
	MaxList   int                                                                                     // maximum list length (default 3)
	SetPct    int                                                                                     // chance in percent that an optional scalar / message field is populated (default 75)
	BytesLens []int                                                                                   // candidate lengths for bytes fields (default: 0,1,20,32,48,96 and a few odd ones)
	AnyTypes  []proto.Message                                                                         // payload prototypes for google.protobuf.Any fields
	Override  func(path string, fd protoreflect.FieldDescriptor, d Drawer) (protoreflect.Value, bool) // optional per-field override
}

var defaultBytesLens = []int{0, 1, 8, 19, 20, 21, 32, 32, 32, 48, 48, 64, 96, 96, 255, 256}

// Fill populates m in place with structurally plausible random content.
func Fill(m proto.Message, d Drawer, o FillOpts) {
	if o.MaxDepth == 0 {
		o.MaxDepth = 5
	}
	if o.MaxList == 0 {
		o.MaxList = 3
	}
	if o.SetPct == 0 {
		o.SetPct = 75
	}
	if o.BytesLens == nil {
		o.BytesLens = defaultBytesLens
	}
	fill(m.ProtoReflect(), d, &o, 0, "")
}

func fill(m protoreflect.Message, d Drawer, o *FillOpts, depth int, path string) {
	if a, ok := m.Interface().(*anypb.Any); ok {
		fillAny(a, d, o, depth, path)
		return
	}
	fds := m.Descriptor().Fields()
	for i := 0; i < fds.Len(); i++ {
		fd := fds.Get(i)
		if fd.IsMap() {
			continue
		}
		p := string(fd.Name())
		if path != "" {
			p = path + "." + p
		}
		if o.Override != nil {
			if v, ok := o.Override(p, fd, d); ok {
				if v.IsValid() {
					m.Set(fd, v)
				}
				continue
			}
		}
		if fd.IsList() {
			n := d.Intn(o.MaxList+1, "len:"+p)
			if fd.Kind() == protoreflect.MessageKind && depth >= o.MaxDepth {
				n = 0
			}
			l := m.Mutable(fd).List()
			for j := 0; j < n; j++ {
				if fd.Kind() == protoreflect.MessageKind {
					e := l.NewElement()
					fill(e.Message(), d, o, depth+1, p)
					l.Append(e)
				} else {
					l.Append(scalar(fd, d, o, p))
				}
			}
			continue
		}
		if d.Intn(100, "set:"+p) >= o.SetPct {
			continue
		}
		if fd.Kind() == protoreflect.MessageKind {
			if depth >= o.MaxDepth {
				continue
			}
			sub := m.NewField(fd).Message()
			fill(sub, d, o, depth+1, p)
			m.Set(fd, protoreflect.ValueOfMessage(sub))
			continue
		}
		m.Set(fd, scalar(fd, d, o, p))
	}
}

func fillAny(a *anypb.Any, d Drawer, o *FillOpts, depth int, path string) {
	if len(o.AnyTypes) == 0 {
		a.TypeUrl = "type.googleapis.com/types.Unknown"
		a.Value = Bytes(d.Intn(8, "anylen"), 0x11)
		return
	}
	proto_ := o.AnyTypes[d.Intn(len(o.AnyTypes), "anytype")]
	inner := proto_.ProtoReflect().New()
	fill(inner, d, o, depth+1, path+".@any")
	bz, _ := proto.MarshalOptions{Deterministic: true}.Marshal(inner.Interface())
	a.TypeUrl = "type.googleapis.com/" + string(inner.Descriptor().FullName())
	a.Value = bz
}

func scalar(fd protoreflect.FieldDescriptor, d Drawer, o *FillOpts, p string) protoreflect.Value {
	switch fd.Kind() {
	case protoreflect.BoolKind:
		return protoreflect.ValueOfBool(d.Intn(2, p) == 1)
	case protoreflect.EnumKind:
		vals := fd.Enum().Values()
		return protoreflect.ValueOfEnum(vals.Get(d.Intn(vals.Len(), p)).Number())
	case protoreflect.StringKind:
		n := d.Intn(12, p)
		b := make([]byte, n)
		for i := range b {
			b[i] = byte('a' + d.Intn(26, p))
		}
		return protoreflect.ValueOfString(string(b))
	case protoreflect.BytesKind:
		n := o.BytesLens[d.Intn(len(o.BytesLens), "blen:"+p)]
		b := make([]byte, n)
		if n == 0 {
			return protoreflect.ValueOfBytes(b)
		}
		if d.Intn(4, "bmode:"+p) == 0 {
			f := HostileFills[d.Intn(len(HostileFills), "fill")]
			for i := range b {
				b[i] = f
			}
		} else {
			// one draw seeds a splitmix64 stream (a draw per byte would make cases needlessly large for the shrinker)
			x := uint64(d.Intn(1<<30, "bseed")) + 0x9E3779B97F4A7C15
			for i := range b {
				x += 0x9E3779B97F4A7C15
				z := x
				z = (z ^ (z >> 30)) * 0xBF58476D1CE4E5B9
				z = (z ^ (z >> 27)) * 0x94D049BB133111EB
				b[i] = byte(z ^ (z >> 31))
			}
		}
		return protoreflect.ValueOfBytes(b)
	case protoreflect.FloatKind:
		return protoreflect.ValueOfFloat32(float32(d.Intn(1000, p)))
	case protoreflect.DoubleKind:
		return protoreflect.ValueOfFloat64(float64(d.Intn(1000, p)))
	}
	var v uint64
	if d.Intn(3, "umode:"+p) == 0 {
		v = HostileUints[d.Intn(len(HostileUints), "hu")]
	} else {
		v = uint64(d.Intn(1000, "small"))
	}
	return u64Value(clampTo(v, fd), fd)
}

// ResolveAny returns a fresh instance of the message type an Any names (nil if unknown to the registry).
func ResolveAny(a *anypb.Any) proto.Message {
	if a == nil {
		return nil
	}
	mt, err := protoregistry.GlobalTypes.FindMessageByURL(a.TypeUrl)
	if err != nil {
		return nil
	}
	return mt.New().Interface()
}
