package wire

// gen_unknown.go: inject an UNKNOWN field (a field number the schema does not define) at a drawn nesting depth of an
// encoded message, following only message-typed fields of the descriptor (bytes fields stay opaque). Used to check the
// "unknown fields are rejected for consensus-critical messages" claim of lib.Unmarshal.

import (
	"fmt"

	"google.golang.org/protobuf/encoding/protowire"
	"google.golang.org/protobuf/reflect/protoreflect"
)

// InjectUnknown returns a copy of the encoding b of a message of type md with one unknown field added, and the path
// (dotted field names) of the message it was added to. ok=false when b does not parse.
func InjectUnknown(b []byte, md protoreflect.MessageDescriptor, d Drawer) (out []byte, where string, ok bool) {
	fs, err := Parse(b)
	if err != nil {
		return nil, "", false
	}
	// candidates to descend into: occurrences of message-typed fields
	var subs []int
	for i, f := range fs {
		if fd := md.Fields().ByNumber(f.Num); fd != nil && fd.Kind() == protoreflect.MessageKind && f.Typ == protowire.BytesType && !fd.IsMap() {
			subs = append(subs, i)
		}
	}
	if len(subs) > 0 && d.Intn(3, "descend") != 0 {
		i := subs[d.Intn(len(subs), "sub")]
		fd := md.Fields().ByNumber(fs[i].Num)
		inner, w, ok2 := InjectUnknown(fs[i].B, fd.Message(), d)
		if ok2 {
			fs[i].B = inner
			return Encode(fs), string(fd.Name()) + "." + w, true
		}
	}
	// pick a field number the message does not define
	var num protowire.Number
	for {
		num = protowire.Number([]int{15, 16, 17, 99, 100, 2047, 2048, 536870911}[d.Intn(8, "num")])
		if md.Fields().ByNumber(num) == nil {
			break
		}
		num = protowire.Number(1000 + d.Intn(1000, "num2"))
		if md.Fields().ByNumber(num) == nil {
			break
		}
	}
	f := Field{Num: num}
	switch d.Intn(4, "wiretype") {
	case 0:
		f.Typ, f.U = protowire.VarintType, HostileUints[d.Intn(len(HostileUints), "val")]
	case 1:
		f.Typ, f.B = protowire.BytesType, Bytes(d.Intn(4, "len"), 0xAA)
	case 2:
		f.Typ, f.U = protowire.Fixed32Type, 7
	default:
		f.Typ, f.U = protowire.Fixed64Type, 7
	}
	pos := d.Intn(len(fs)+1, "pos")
	fs = append(fs[:pos:pos], append([]Field{f}, fs[pos:]...)...)
	return Encode(fs), fmt.Sprintf("<unknown #%d wt%d at %d>", num, f.Typ, pos), true
}

// HostileLengths are the values a lying length prefix takes (besides off-by-one around the true length).
var HostileLengths = []uint64{0, 1, 1<<31 - 1, 1 << 31, 1<<32 - 1, 1 << 32, 1<<63 - 1, 1 << 63, 1<<64 - 1}

// LieAboutLength rewrites the LENGTH PREFIX of one length-delimited field of the encoding b - at a drawn nesting depth,
// descending into any payload that itself parses as a protobuf message (so it reaches messages that travel inside bytes
// fields, like the block inside a certificate inside a gossip message) - to a hostile value, keeping every other byte.
// Enclosing length prefixes are kept consistent so that only the chosen one lies.
func LieAboutLength(b []byte, d Drawer) (out []byte, where string, ok bool) {
	fs, err := Parse(b)
	if err != nil || len(fs) == 0 {
		return nil, "", false
	}
	var idx []int
	for i, f := range fs {
		if f.Typ == protowire.BytesType {
			idx = append(idx, i)
		}
	}
	if len(idx) == 0 {
		return nil, "", false
	}
	i := idx[d.Intn(len(idx), "field")]
	if len(fs[i].B) > 1 && d.Intn(3, "descend") != 0 {
		if inner, w, ok2 := LieAboutLength(fs[i].B, d); ok2 {
			fs[i].B = inner
			return Encode(fs), fmt.Sprintf("#%d.%s", fs[i].Num, w), true
		}
	}
	n := uint64(len(fs[i].B))
	var lie uint64
	switch d.Intn(4, "liekind") {
	case 0:
		lie = n + 1
	case 1:
		lie = n - 1
	default:
		lie = HostileLengths[d.Intn(len(HostileLengths), "lie")]
	}
	if lie == n {
		lie = n + 2
	}
	out = Encode(fs[:i])
	out = protowire.AppendTag(out, fs[i].Num, protowire.BytesType)
	out = protowire.AppendVarint(out, lie)
	out = append(out, fs[i].B...)
	out = append(out, Encode(fs[i+1:])...)
	return out, fmt.Sprintf("#%d:len %d->%d", fs[i].Num, n, lie), true
}

// LengthNodes counts the length-delimited field occurrences of an encoding at all nesting depths (depth-first; payloads
// that parse as messages are descended into, whatever their declared type).
func LengthNodes(b []byte) int {
	fs, err := Parse(b)
	if err != nil {
		return 0
	}
	n := 0
	for _, f := range fs {
		if f.Typ == protowire.BytesType {
			n++
			if len(f.B) > 1 {
				n += LengthNodes(f.B)
			}
		}
	}
	return n
}

// LieAt rewrites the length prefix of the k-th node (LengthNodes order) to lie, keeping enclosing prefixes consistent.
func LieAt(b []byte, k int, lie uint64) (out []byte, where string, ok bool) {
	fs, err := Parse(b)
	if err != nil {
		return nil, "", false
	}
	for i, f := range fs {
		if f.Typ != protowire.BytesType {
			continue
		}
		if k == 0 {
			if lie == uint64(len(f.B)) {
				return nil, "", false
			}
			out = Encode(fs[:i])
			out = protowire.AppendTag(out, f.Num, protowire.BytesType)
			out = protowire.AppendVarint(out, lie)
			out = append(out, f.B...)
			out = append(out, Encode(fs[i+1:])...)
			return out, fmt.Sprintf("#%d:len %d->%d", f.Num, len(f.B), lie), true
		}
		k--
		if len(f.B) > 1 {
			sub := LengthNodes(f.B)
			if k < sub {
				inner, w, ok2 := LieAt(f.B, k, lie)
				if !ok2 {
					return nil, "", false
				}
				fs[i].B = inner
				return Encode(fs), fmt.Sprintf("#%d.%s", f.Num, w), true
			}
			k -= sub
		}
	}
	return nil, "", false
}
