// Package wire contains byte-level tools for the messages the node decodes from untrusted sources.
//
// reencode.go: a protobuf RE-ENCODER that works on raw wire bytes (tag / wire type / value, no generated code needed) and
// produces encodings that a conforming proto3 decoder maps to the SAME message but that differ byte-wise from the input:
// field reordering, explicit default scalars, non-minimal varints (value, tag, length prefix), duplicated singular
// fields, shadowed singular fields (an earlier occurrence with another value, last one wins), split sub-messages
// (two occurrences of a message field are merged by the decoder), recursively re-encoded sub-messages, and - as a
// control that MUST change the meaning for messages that reject unknown fields - appended unknown fields.
// Every variant names the trick it used so that checks can label evidence classes.
package wire

import (
	"fmt"
	"sort"

	"google.golang.org/protobuf/encoding/protowire"
)

// Kind is what a Schema says about a field. The re-encoder itself needs no schema; the schema only tells it which
// length-delimited fields are sub-messages (to recurse) and which fields exist at all (to append explicit defaults).
type Kind int

const (
	KVarint Kind = iota
	KBytes       // bytes or string
	KMessage
	KFixed32
	KFixed64
)

// FieldSpec describes one field of a message type.
type FieldSpec struct {
	Kind     Kind
	Name     string
	Sub      *Schema // for KMessage
	Repeated bool    // repeated field: occurrences are list elements (never duplicated, shadowed or split)
}

// Schema is an optional, minimal description of a message type.
type Schema struct {
	Name   string
	Fields map[protowire.Number]FieldSpec
}

// Field is one parsed top-level occurrence (tag + value) of a message.
type Field struct {
	Num protowire.Number
	Typ protowire.Type
	U   uint64 // varint / fixed32 / fixed64 value
	B   []byte // payload of a length-delimited field (without the length prefix); for groups the raw group body incl. end tag
	// encoding knobs (0 = minimal)
	TagPad, ValPad, LenPad int
}

// Parse splits a message into its field occurrences. It fails on malformed input.
func Parse(b []byte) ([]Field, error) {
	var out []Field
	for len(b) > 0 {
		num, typ, n := protowire.ConsumeTag(b)
		if n < 0 {
			return nil, protowire.ParseError(n)
		}
		b = b[n:]
		f := Field{Num: num, Typ: typ}
		switch typ {
		case protowire.VarintType:
			v, m := protowire.ConsumeVarint(b)
			if m < 0 {
				return nil, protowire.ParseError(m)
			}
			f.U, b = v, b[m:]
		case protowire.Fixed32Type:
			v, m := protowire.ConsumeFixed32(b)
			if m < 0 {
				return nil, protowire.ParseError(m)
			}
			f.U, b = uint64(v), b[m:]
		case protowire.Fixed64Type:
			v, m := protowire.ConsumeFixed64(b)
			if m < 0 {
				return nil, protowire.ParseError(m)
			}
			f.U, b = v, b[m:]
		case protowire.BytesType:
			v, m := protowire.ConsumeBytes(b)
			if m < 0 {
				return nil, protowire.ParseError(m)
			}
			f.B, b = append([]byte(nil), v...), b[m:]
		case protowire.StartGroupType:
			v, m := protowire.ConsumeGroup(num, b)
			if m < 0 {
				return nil, protowire.ParseError(m)
			}
			f.B, b = append([]byte(nil), b[:m]...), b[m:]
			_ = v
		default:
			return nil, fmt.Errorf("unexpected wire type %d", typ)
		}
		out = append(out, f)
	}
	return out, nil
}

// AppendVarintPadded encodes v as a varint using exactly len(minimal)+pad bytes (pad extra continuation bytes carrying
// zero bits). The total is capped at 10 bytes, the maximum a decoder accepts.
func AppendVarintPadded(b []byte, v uint64, pad int) []byte {
	min := protowire.SizeVarint(v)
	if pad <= 0 {
		return protowire.AppendVarint(b, v)
	}
	total := min + pad
	if total > 10 {
		total = 10
	}
	if total <= min {
		return protowire.AppendVarint(b, v)
	}
	for i := 0; i < total-1; i++ {
		b = append(b, byte(v&0x7f)|0x80)
		v >>= 7
	}
	return append(b, byte(v&0x7f))
}

// Encode serialises field occurrences in the given order honouring the padding knobs.
func Encode(fs []Field) []byte {
	var b []byte
	for _, f := range fs {
		b = AppendVarintPadded(b, protowire.EncodeTag(f.Num, f.Typ), f.TagPad)
		switch f.Typ {
		case protowire.VarintType:
			b = AppendVarintPadded(b, f.U, f.ValPad)
		case protowire.Fixed32Type:
			b = protowire.AppendFixed32(b, uint32(f.U))
		case protowire.Fixed64Type:
			b = protowire.AppendFixed64(b, f.U)
		case protowire.BytesType:
			b = AppendVarintPadded(b, uint64(len(f.B)), f.LenPad)
			b = append(b, f.B...)
		case protowire.StartGroupType:
			b = append(b, f.B...)
		}
	}
	return b
}

// Variant is one alternative encoding together with the trick that produced it.
type Variant struct {
	Trick string // e.g. "append-default:nonce", "reorder:reverse", "nested:signature/nonminimal-len:public_key"
	Class string // coarse class of the trick: append-default | reorder | nonminimal-varint | nonminimal-tag | nonminimal-len | dup | shadow | split | unknown | nested
	Bytes []byte
	// Equivalent is false for tricks that are NOT meaning-preserving for a strict decoder (unknown fields): controls.
	Equivalent bool
}

func clone(fs []Field) []Field {
	out := make([]Field, len(fs))
	copy(out, fs)
	return out
}

// keepRelativeOrder rewrites perm (a permutation of orig) so that occurrences of one field number appear in their
// original relative order (the order of several occurrences of one field is meaningful: list order / last one wins).
func keepRelativeOrder(orig, perm []Field) []Field {
	byNum := map[protowire.Number][]Field{}
	for _, f := range orig {
		byNum[f.Num] = append(byNum[f.Num], f)
	}
	out := make([]Field, len(perm))
	for i, f := range perm {
		out[i] = byNum[f.Num][0]
		byNum[f.Num] = byNum[f.Num][1:]
	}
	return out
}

func (s *Schema) name(n protowire.Number) string {
	if s != nil {
		if f, ok := s.Fields[n]; ok && f.Name != "" {
			return f.Name
		}
	}
	return fmt.Sprintf("f%d", n)
}

// Reencodings enumerates, deterministically, alternative encodings of msg. depth bounds the recursion into
// sub-messages named by the schema (0 = top level only). The list never contains msg itself.
func Reencodings(msg []byte, s *Schema, depth int) ([]Variant, error) {
	fs, err := Parse(msg)
	if err != nil {
		return nil, err
	}
	var out []Variant
	add := func(class, trick string, eq bool, f []Field) {
		b := Encode(f)
		if string(b) == string(msg) {
			return
		}
		out = append(out, Variant{Trick: trick, Class: class, Bytes: b, Equivalent: eq})
	}
	present := map[protowire.Number]int{}
	for _, f := range fs {
		present[f.Num]++
	}
	// 1. explicit defaults for absent fields of the schema (proto3: absent == default)
	if s != nil {
		nums := make([]int, 0, len(s.Fields))
		for n := range s.Fields {
			nums = append(nums, int(n))
		}
		sort.Ints(nums)
		for _, ni := range nums {
			n := protowire.Number(ni)
			if present[n] > 0 {
				continue
			}
			spec := s.Fields[n]
			var f Field
			switch spec.Kind {
			case KVarint:
				f = Field{Num: n, Typ: protowire.VarintType}
			case KBytes:
				f = Field{Num: n, Typ: protowire.BytesType}
			case KFixed32:
				f = Field{Num: n, Typ: protowire.Fixed32Type}
			case KFixed64:
				f = Field{Num: n, Typ: protowire.Fixed64Type}
			case KMessage:
				// an explicit empty sub-message makes the field "present": NOT equivalent for message fields
				continue
			}
			add("append-default", "append-default:"+s.name(n), true, append(clone(fs), f))
			// also in front
			add("append-default", "prepend-default:"+s.name(n), true, append([]Field{f}, clone(fs)...))
		}
	}
	// 2. field order
	if len(fs) > 1 {
		r := clone(fs)
		for i, j := 0, len(r)-1; i < j; i, j = i+1, j-1 {
			r[i], r[j] = r[j], r[i]
		}
		add("reorder", "reorder:reverse", true, keepRelativeOrder(fs, r))
		rot := append(clone(fs[1:]), fs[0])
		add("reorder", "reorder:rotate", true, keepRelativeOrder(fs, rot))
		for i := 0; i+1 < len(fs); i++ {
			if fs[i].Num == fs[i+1].Num {
				continue // swapping two occurrences of one field could change "last wins"
			}
			sw := clone(fs)
			sw[i], sw[i+1] = sw[i+1], sw[i]
			add("reorder", fmt.Sprintf("reorder:swap(%s,%s)", s.name(fs[i].Num), s.name(fs[i+1].Num)), true, sw)
		}
	}
	// 3. non-minimal varints: value, tag, length prefix
	for i, f := range fs {
		for _, pad := range []int{1, 4, 9} {
			if f.Typ == protowire.VarintType {
				v := clone(fs)
				v[i].ValPad = pad
				add("nonminimal-varint", fmt.Sprintf("nonminimal-varint:%s+%d", s.name(f.Num), pad), true, v)
			}
			if f.Typ == protowire.BytesType {
				v := clone(fs)
				v[i].LenPad = pad
				add("nonminimal-len", fmt.Sprintf("nonminimal-len:%s+%d", s.name(f.Num), pad), true, v)
			}
			if pad <= 4 { // a tag is a uint32 varint: decoders reject tags longer than 5 bytes / out of range
				v := clone(fs)
				v[i].TagPad = pad
				add("nonminimal-tag", fmt.Sprintf("nonminimal-tag:%s+%d", s.name(f.Num), pad), true, v)
			}
		}
	}
	// 4. duplicated singular field with equal value (last one wins / messages merge to the same value)
	for i, f := range fs {
		if present[f.Num] > 1 || (s != nil && s.Fields[f.Num].Repeated) {
			continue
		}
		d := append(clone(fs[:i+1]), append([]Field{f}, clone(fs[i+1:])...)...)
		add("dup", "dup-adjacent:"+s.name(f.Num), true, d)
		add("dup", "dup-append:"+s.name(f.Num), true, append(clone(fs), f))
		// 5. shadowed: an EARLIER occurrence with a different scalar value, the real value comes last and wins
		if f.Typ == protowire.VarintType || (f.Typ == protowire.BytesType && (s == nil || s.Fields[f.Num].Kind != KMessage)) {
			sh := f
			if f.Typ == protowire.VarintType {
				sh.U = f.U + 1
			} else {
				sh.B = append(append([]byte(nil), f.B...), 0x41)
			}
			add("shadow", "shadow-before:"+s.name(f.Num), true, append([]Field{sh}, clone(fs)...))
		}
	}
	// 6. sub-messages: split into two occurrences (decoder merges), re-encode recursively
	if s != nil {
		for i, f := range fs {
			spec, ok := s.Fields[f.Num]
			if !ok || spec.Kind != KMessage || f.Typ != protowire.BytesType || present[f.Num] > 1 || spec.Repeated {
				continue
			}
			sub, err := Parse(f.B)
			if err != nil {
				continue
			}
			if len(sub) > 1 {
				a, b := f, f
				a.B, b.B = Encode(sub[:1]), Encode(sub[1:])
				sp := append(clone(fs[:i]), a, b)
				sp = append(sp, clone(fs[i+1:])...)
				add("split", "split-message:"+s.name(f.Num), true, sp)
				// split with other fields in between
				sp2 := append(clone(fs[:i]), a)
				sp2 = append(sp2, clone(fs[i+1:])...)
				sp2 = append(sp2, b)
				add("split", "split-message-apart:"+s.name(f.Num), true, sp2)
			}
			if depth > 0 {
				vs, err := Reencodings(f.B, spec.Sub, depth-1)
				if err != nil {
					continue
				}
				for _, v := range vs {
					n := clone(fs)
					n[i].B = v.Bytes
					out = append(out, Variant{Trick: "nested:" + s.name(f.Num) + "/" + v.Trick, Class: "nested-" + v.Class, Bytes: Encode(n), Equivalent: v.Equivalent})
				}
			}
		}
	}
	// 7. unknown fields (control: a decoder that rejects unknown fields must reject these)
	used := func(n protowire.Number) bool {
		if present[n] > 0 {
			return true
		}
		if s != nil {
			_, ok := s.Fields[n]
			return ok
		}
		return false
	}
	for _, n := range []protowire.Number{15, 16, 1000, 536870911} {
		if used(n) {
			continue
		}
		add("unknown", fmt.Sprintf("unknown-varint:%d", n), false, append(clone(fs), Field{Num: n, Typ: protowire.VarintType, U: 0}))
		add("unknown", fmt.Sprintf("unknown-bytes:%d", n), false, append(clone(fs), Field{Num: n, Typ: protowire.BytesType}))
		add("unknown", fmt.Sprintf("unknown-fixed64:%d", n), false, append(clone(fs), Field{Num: n, Typ: protowire.Fixed64Type}))
		add("unknown", fmt.Sprintf("unknown-fixed32:%d", n), false, append(clone(fs), Field{Num: n, Typ: protowire.Fixed32Type}))
		grp := protowire.AppendVarint(nil, protowire.EncodeTag(n, protowire.EndGroupType))
		add("unknown", fmt.Sprintf("unknown-group:%d", n), false, append(clone(fs), Field{Num: n, Typ: protowire.StartGroupType, B: grp}))
	}
	return out, nil
}

// Compose applies trick selection twice: variants of variants (pairs of tricks). pick chooses an index in [0,n).
func Compose(msg []byte, s *Schema, depth int, rounds int, pick func(n int) int) (Variant, error) {
	cur := Variant{Bytes: msg, Equivalent: true}
	for r := 0; r < rounds; r++ {
		vs, err := Reencodings(cur.Bytes, s, depth)
		if err != nil {
			return cur, err
		}
		if len(vs) == 0 {
			return cur, nil
		}
		v := vs[pick(len(vs))]
		if cur.Trick != "" {
			v.Trick = cur.Trick + " | " + v.Trick
			v.Class = cur.Class + "+" + v.Class
			v.Equivalent = v.Equivalent && cur.Equivalent
		}
		cur = v
	}
	return cur, nil
}

// ---- schemas of the messages re-encoded by the checks ----------------------------------------------------------

// AnySchema is google.protobuf.Any.
var AnySchema = &Schema{Name: "Any", Fields: map[protowire.Number]FieldSpec{
	1: {Kind: KBytes, Name: "type_url"},
	2: {Kind: KBytes, Name: "value"},
}}

// SignatureSchema is lib.Signature.
var SignatureSchema = &Schema{Name: "Signature", Fields: map[protowire.Number]FieldSpec{
	1: {Kind: KBytes, Name: "public_key"},
	2: {Kind: KBytes, Name: "signature"},
}}

// TransactionSchema is lib.Transaction.
var TransactionSchema = &Schema{Name: "Transaction", Fields: map[protowire.Number]FieldSpec{
	1:  {Kind: KBytes, Name: "message_type"},
	2:  {Kind: KMessage, Name: "msg", Sub: AnySchema},
	3:  {Kind: KMessage, Name: "signature", Sub: SignatureSchema},
	4:  {Kind: KVarint, Name: "created_height"},
	5:  {Kind: KVarint, Name: "time"},
	6:  {Kind: KVarint, Name: "fee"},
	7:  {Kind: KBytes, Name: "memo"},
	8:  {Kind: KVarint, Name: "network_id"},
	9:  {Kind: KVarint, Name: "chain_id"},
	10: {Kind: KVarint, Name: "nonce"},
}}

// MultiPublicKeySchema is crypto.MultiPublicKey (the serialized BLS multisig account key carried in Signature.public_key).
var MultiPublicKeySchema = &Schema{Name: "MultiPublicKey", Fields: map[protowire.Number]FieldSpec{
	1: {Kind: KBytes, Name: "public_keys", Repeated: true},
	2: {Kind: KBytes, Name: "bitmap"},
	3: {Kind: KVarint, Name: "threshold"},
}}
