package wire

import (
	"bytes"
	"testing"

	"github.com/canopy-network/canopy/lib"
	"google.golang.org/protobuf/proto"
	"google.golang.org/protobuf/types/known/anypb"
)

// every variant flagged Equivalent must decode (plain proto.Unmarshal) to a message equal to the original and differ
// byte-wise; every non-equivalent variant must carry unknown fields.
func TestReencodingsEquivalent(t *testing.T) {
	tx := &lib.Transaction{MessageType: "send", Msg: &anypb.Any{TypeUrl: "type.googleapis.com/types.MessageSend", Value: []byte{10, 2, 1, 2, 0x18, 5}},
		Signature: &lib.Signature{PublicKey: bytes.Repeat([]byte{7}, 32), Signature: bytes.Repeat([]byte{9}, 64)}, CreatedHeight: 3, Time: 1_700_000_000, Fee: 10000, NetworkId: 1, ChainId: 1}
	raw, err := proto.MarshalOptions{Deterministic: true}.Marshal(tx)
	if err != nil {
		t.Fatal(err)
	}
	vs, err := Reencodings(raw, TransactionSchema, 1)
	if err != nil {
		t.Fatal(err)
	}
	classes := map[string]int{}
	seen := map[string]bool{}
	for _, v := range vs {
		classes[v.Class]++
		if bytes.Equal(v.Bytes, raw) {
			t.Fatalf("%s: identical bytes", v.Trick)
		}
		if seen[string(v.Bytes)] {
			continue
		}
		seen[string(v.Bytes)] = true
		got := new(lib.Transaction)
		e := proto.Unmarshal(v.Bytes, got)
		if e != nil {
			t.Fatalf("%s: does not decode: %v", v.Trick, e)
		}
		unknown := len(got.ProtoReflect().GetUnknown()) > 0 || len(got.Signature.ProtoReflect().GetUnknown()) > 0 || len(got.Msg.ProtoReflect().GetUnknown()) > 0
		if v.Equivalent {
			if unknown || !proto.Equal(got, tx) {
				t.Fatalf("%s: flagged equivalent but decodes differently: %v", v.Trick, got)
			}
		} else if !unknown {
			t.Fatalf("%s: control variant without unknown fields", v.Trick)
		}
	}
	for _, c := range []string{"append-default", "reorder", "nonminimal-varint", "nonminimal-tag", "nonminimal-len", "dup", "shadow", "split", "unknown", "nested-reorder", "nested-nonminimal-len", "nested-dup"} {
		if classes[c] == 0 {
			t.Fatalf("class %s missing: %v", c, classes)
		}
	}
	t.Logf("%d variants, classes %v", len(vs), classes)
	// the literal of finding 4.2
	found := false
	for _, v := range vs {
		if v.Trick == "append-default:nonce" && bytes.Equal(v.Bytes, append(append([]byte{}, raw...), 0x50, 0x00)) {
			found = true
		}
	}
	if !found {
		t.Fatal("append-default:nonce is not raw+0x50 0x00")
	}
}
