// Package ev collects what a check actually explored and writes it as a stats file that the
// ./check driver merges into /verif/evidence/<id>.json.
//
// Usage inside a test:
//
//	rec := ev.New(t, "C08")             // once per Test function (outside rapid.Check)
//	rapid.Check(t, func(rt *rapid.T) {
//	    c := rec.Case()                  // one per generated case
//	    ... c.Class("parallel-batch"); c.Desc("set k1;del k2;commit") ...
//	    c.Done(nontrivial)               // call when the case ran to completion without violation
//	})
//
// Every count is measured. Distinctness is by FNV-64a of the descriptor string the case built.
package ev

import (
	"encoding/json"
	"fmt"
	"hash/fnv"
	"os"
	"path/filepath"
	"sort"
	"strings"
	"sync"
	"testing"
	"time"
)

const maxSamples = 6
const maxHashes = 400000

// Rec accumulates statistics for one Test function.
type Rec struct {
	mu        sync.Mutex
	Property  string            `json:"property"`
	Test      string            `json:"test"`
	Cases     int               `json:"cases"`      // property function invocations that ran to completion
	Started   int               `json:"started"`    // property function invocations begun
	Nontriv   int               `json:"nontrivial"` // completed cases that satisfied the non-trivial rule (not de-duplicated)
	Hashes    []uint64          `json:"hashes"`     // distinct FNV hashes of non-trivial case descriptors
	Classes   map[string]int    `json:"classes"`    // label -> number of completed cases carrying it
	Samples   []string          `json:"samples"`    // a few non-trivial descriptors, verbatim
	Excluded  map[string]int    `json:"excluded"`   // inputs excluded by construction because of an open known finding
	Notes     map[string]string `json:"notes"`
	WallS     float64           `json:"wall_s"`
	Failed    bool              `json:"failed"`
	Replay    string            `json:"replay,omitempty"` // replay artefact written by the test itself (non-rapid checks)
	seen      map[uint64]struct{}
	start     time.Time
	sampleGap int
}

// New creates a recorder and registers a cleanup that writes it to $VERIF_STATS_DIR (if set).
func New(t testing.TB, property string) *Rec {
	r := &Rec{Property: property, Test: t.Name(), Classes: map[string]int{}, Excluded: map[string]int{},
		Notes: map[string]string{}, seen: map[uint64]struct{}{}, start: time.Now()}
	t.Cleanup(func() {
		r.mu.Lock()
		r.Failed = t.Failed()
		r.mu.Unlock()
		r.Write()
	})
	return r
}

// Case is one generated case.
type Case struct {
	r       *Rec
	classes []string
	desc    strings.Builder
}

// Case starts recording one generated case.
func (r *Rec) Case() *Case {
	r.mu.Lock()
	r.Started++
	r.mu.Unlock()
	return &Case{r: r}
}

// Class labels the case (counted once per case and label when the case completes).
func (c *Case) Class(label string) {
	for _, l := range c.classes {
		if l == label {
			return
		}
	}
	c.classes = append(c.classes, label)
}

// ClassIf labels the case when cond holds.
func (c *Case) ClassIf(cond bool, label string) {
	if cond {
		c.Class(label)
	}
}

// Desc appends to the canonical descriptor of the case (what is hashed for distinctness and shown as sample).
func (c *Case) Desc(format string, a ...any) {
	if c.desc.Len() > 0 {
		c.desc.WriteByte(';')
	}
	if len(a) == 0 {
		c.desc.WriteString(format)
	} else {
		fmt.Fprintf(&c.desc, format, a...)
	}
}

// Descriptor returns what was accumulated so far.
func (c *Case) Descriptor() string { return c.desc.String() }

// Done records a completed case.
func (c *Case) Done(nontrivial bool) {
	r := c.r
	r.mu.Lock()
	defer r.mu.Unlock()
	r.Cases++
	for _, l := range c.classes {
		r.Classes[l]++
	}
	if !nontrivial {
		return
	}
	r.Nontriv++
	d := c.desc.String()
	h := fnv.New64a()
	h.Write([]byte(d))
	k := h.Sum64()
	if _, ok := r.seen[k]; ok {
		return
	}
	if len(r.seen) < maxHashes {
		r.seen[k] = struct{}{}
	}
	if len(r.Samples) < maxSamples {
		// spread samples: 1st, 2nd, then every so often
		if len(r.Samples) < 2 || r.sampleGap >= 7*len(r.Samples) {
			if len(d) > 1500 {
				d = d[:1500] + "…"
			}
			r.Samples = append(r.Samples, d)
			r.sampleGap = 0
		} else {
			r.sampleGap++
		}
	}
}

// Exclude counts an input that the generator excluded by construction because of an open known finding.
func (r *Rec) Exclude(finding string) {
	r.mu.Lock()
	r.Excluded[finding]++
	r.mu.Unlock()
}

// Note stores a free-form measured fact (e.g. calibration output).
func (r *Rec) Note(k, v string) {
	r.mu.Lock()
	r.Notes[k] = v
	r.mu.Unlock()
}

// SetReplay records the path of a replay artefact written by the test itself.
func (r *Rec) SetReplay(p string) {
	r.mu.Lock()
	r.Replay = p
	r.mu.Unlock()
}

// Write dumps the recorder to $VERIF_STATS_DIR/<test>-<shard>.json.
func (r *Rec) Write() {
	dir := os.Getenv("VERIF_STATS_DIR")
	if dir == "" {
		return
	}
	r.mu.Lock()
	defer r.mu.Unlock()
	r.WallS = time.Since(r.start).Seconds()
	r.Hashes = r.Hashes[:0]
	for k := range r.seen {
		r.Hashes = append(r.Hashes, k)
	}
	sort.Slice(r.Hashes, func(i, j int) bool { return r.Hashes[i] < r.Hashes[j] })
	b, err := json.Marshal(r)
	if err != nil {
		return
	}
	shard := os.Getenv("VERIF_SHARD")
	if shard == "" {
		shard = "0"
	}
	name := strings.NewReplacer("/", "_", " ", "_").Replace(r.Test)
	_ = os.MkdirAll(dir, 0o755)
	_ = os.WriteFile(filepath.Join(dir, name+"-"+shard+".json"), b, 0o644)
}

// Open reports whether the known finding with this id is open (the driver passes the open ids in
// $VERIF_OPEN_FINDINGS, comma separated). Generators use it to exclude the finding's input class by
// construction so the search continues behind it.
func Open(id string) bool {
	for _, s := range strings.Split(os.Getenv("VERIF_OPEN_FINDINGS"), ",") {
		if s == id {
			return true
		}
	}
	return false
}

// ReplayDir is where checks write replay artefacts of their own.
func ReplayDir() string {
	d := os.Getenv("VERIF_REPLAY_DIR")
	if d == "" {
		d = os.TempDir()
	}
	_ = os.MkdirAll(d, 0o755)
	return d
}

// SaveReplay writes a replay artefact and returns its path.
func (r *Rec) SaveReplay(name string, v any) string {
	b, _ := json.MarshalIndent(v, "", " ")
	p := filepath.Join(ReplayDir(), name)
	_ = os.WriteFile(p, b, 0o644)
	r.SetReplay(p)
	return p
}
