package storemodel

import (
	"bytes"
	"crypto/sha256"
	"encoding/binary"
	"sort"
	"sync"
)

// KeyPool is a table of state keys with known sha256 prefixes, used to generate keys whose tree
// positions are adversarial for a compressed trie: groups with long shared hash prefixes, keys right
// next to the 8 three-bit subtree borders (000|0..0 / 000|1..1 etc.) and next to the two sentinels.
type KeyPool struct {
	Keys   [][]byte // sorted by sha256
	Hashes [][]byte // sha256 of Keys[i]
	// Border[p] = indexes (into Keys) of the keys closest above the low border and closest below the high border of prefix p
	BorderLow, BorderHigh [8][]int
	// Close = start indexes of runs of adjacent keys sharing >= 24 hash bits with their successor
	Close []int
}

var (
	poolOnce sync.Once
	pool     *KeyPool
)

// Pool returns the process-wide pool (2^19 length-prefixed keys, built once, ~0.2 s).
func Pool() *KeyPool {
	poolOnce.Do(func() { pool = buildPool(1 << 19) })
	return pool
}

func buildPool(n int) *KeyPool {
	type kv struct {
		k []byte
		h [32]byte
	}
	all := make([]kv, n)
	for i := 0; i < n; i++ {
		// every store key is a stream of one-byte-length-prefixed segments (lib.JoinLenPrefix); the store
		// validates that shape on write, so the pool keys are [2]"vk" [4]<i>
		k := make([]byte, 8)
		k[0], k[1], k[2], k[3] = 2, 'v', 'k', 4
		binary.BigEndian.PutUint32(k[4:], uint32(i))
		all[i] = kv{k, sha256.Sum256(k)}
	}
	sort.Slice(all, func(i, j int) bool { return bytes.Compare(all[i].h[:], all[j].h[:]) < 0 })
	p := &KeyPool{Keys: make([][]byte, n), Hashes: make([][]byte, n)}
	for i := range all {
		p.Keys[i], p.Hashes[i] = all[i].k, all[i].h[:]
	}
	for pr := 0; pr < 8; pr++ {
		lo := sort.Search(n, func(i int) bool { return p.Hashes[i][0]>>5 >= byte(pr) })
		hi := sort.Search(n, func(i int) bool { return p.Hashes[i][0]>>5 > byte(pr) })
		for j := 0; j < 4 && lo+j < hi; j++ {
			p.BorderLow[pr] = append(p.BorderLow[pr], lo+j)
		}
		for j := 1; j <= 4 && hi-j >= lo; j++ {
			p.BorderHigh[pr] = append(p.BorderHigh[pr], hi-j)
		}
	}
	for i := 0; i+1 < n; i++ {
		if SharedBits(p.Hashes[i], p.Hashes[i+1]) >= 24 {
			p.Close = append(p.Close, i)
		}
	}
	return p
}

// SharedBits returns the number of leading bits two byte strings share.
func SharedBits(a, b []byte) int {
	n := 0
	for i := 0; i < len(a) && i < len(b); i++ {
		x := a[i] ^ b[i]
		if x == 0 {
			n += 8
			continue
		}
		for m := byte(0x80); m != 0 && x&m == 0; m >>= 1 {
			n++
		}
		break
	}
	return n
}

// PoolKey returns the pool-format key [2]"vk"[4]<i> (indexes >= 2^19 are outside the sorted pool).
func PoolKey(i uint32) []byte {
	k := make([]byte, 8)
	k[0], k[1], k[2], k[3] = 2, 'v', 'k', 4
	binary.BigEndian.PutUint32(k[4:], i)
	return k
}

// Ladder returns the mined deep-path group (ladder_data.go): the target key and, for d = 0..len-1, a key whose sha256 shares
// exactly d leading bits with the target's. A state holding all of them gives the target a path with len(ladder) branch points.
func Ladder() (target []byte, ladder [][]byte) {
	for _, i := range LadderIdx {
		ladder = append(ladder, PoolKey(i))
	}
	return PoolKey(LadderTarget), ladder
}

// LongKey returns a length-prefixed key of exactly `total` bytes (total >= 10, <= 250): [2]"vl"[4]<i>[n]<pad>. Keys of
// different i are never byte-prefixes of each other or of pool keys (other leading segment).
func LongKey(i uint32, total int) []byte {
	k := make([]byte, 0, total)
	k = append(k, 2, 'v', 'l', 4, 0, 0, 0, 0)
	binary.BigEndian.PutUint32(k[4:], i)
	n := total - 9
	k = append(k, byte(n))
	for j := 0; j < n; j++ {
		k = append(k, byte(i)+byte(j)*7)
	}
	return k
}
