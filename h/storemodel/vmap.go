package storemodel

// vmap.go: reference versioned map. It is the "simple versioned map" of property C10, written without
// looking at the store's MVCC layout:
//
//	VMap : key -> ascending list of (version, value | tombstone); Commit appends one version, Rollback truncates
//	View : a reader/writer positioned on a VMap as of a version (or "latest") with a stack of write
//	       overlays (overlay 0 = the pending top-level write set, overlay 1..n = nested transactions)
//
// Values: nil and empty are the same value (a present key with an empty value); a tombstone hides the key.

import (
	"bytes"
	"sort"
)

// Latest as a View position means "whatever the newest committed version of the VMap is".
const Latest = ^uint64(0)

// Ver is one committed version of a key.
type Ver struct {
	Version uint64
	Value   []byte
	Del     bool
}

// VMap is the committed, versioned history.
type VMap struct {
	hist    map[string][]Ver
	version uint64
}

// NewVMap returns an empty history at version 0.
func NewVMap() *VMap { return &VMap{hist: map[string][]Ver{}} }

// Version is the newest committed version.
func (m *VMap) Version() uint64 { return m.version }

// lookup returns the entry of key visible as of version v.
func (m *VMap) lookup(key string, v uint64) (Ver, bool) {
	h := m.hist[key]
	// first index with Version > v
	i := sort.Search(len(h), func(i int) bool { return h[i].Version > v })
	if i == 0 {
		return Ver{}, false
	}
	return h[i-1], true
}

// GetAt returns the value of key as of version v.
func (m *VMap) GetAt(key []byte, v uint64) (val []byte, present bool) {
	if v == Latest {
		v = m.version
	}
	e, ok := m.lookup(string(key), v)
	if !ok || e.Del {
		return nil, false
	}
	return e.Value, true
}

// StateAt returns the full key/value set as of version v.
func (m *VMap) StateAt(v uint64) map[string][]byte {
	if v == Latest {
		v = m.version
	}
	out := map[string][]byte{}
	for k := range m.hist {
		if e, ok := m.lookup(k, v); ok && !e.Del {
			out[k] = e.Value
		}
	}
	return out
}

// History returns the committed versions of a key (ascending).
func (m *VMap) History(key []byte) []Ver { return m.hist[string(key)] }

// TouchedAt returns the keys written or deleted by the commit of version v, sorted.
func (m *VMap) TouchedAt(v uint64) []string {
	var ks []string
	for k, h := range m.hist {
		i := sort.Search(len(h), func(i int) bool { return h[i].Version >= v })
		if i < len(h) && h[i].Version == v {
			ks = append(ks, k)
		}
	}
	sort.Strings(ks)
	return ks
}

// Keys returns every key that ever had a committed version, sorted.
func (m *VMap) Keys() []string {
	ks := make([]string, 0, len(m.hist))
	for k := range m.hist {
		ks = append(ks, k)
	}
	sort.Strings(ks)
	return ks
}

// Commit appends the overlay as version Version()+1 and returns the new version. The overlay is emptied.
func (m *VMap) Commit(o *Overlay) uint64 {
	m.version++
	for k, e := range o.m {
		m.hist[k] = append(m.hist[k], Ver{Version: m.version, Value: bytes.Clone(e.val), Del: e.del})
	}
	o.m = map[string]ovEntry{}
	return m.version
}

// Rollback drops every version above v.
func (m *VMap) Rollback(v uint64) {
	for k, h := range m.hist {
		i := sort.Search(len(h), func(i int) bool { return h[i].Version > v })
		if i == 0 {
			delete(m.hist, k)
		} else {
			m.hist[k] = h[:i]
		}
	}
	if v < m.version {
		m.version = v
	}
}

// Clone deep-copies the history.
func (m *VMap) Clone() *VMap {
	c := &VMap{hist: make(map[string][]Ver, len(m.hist)), version: m.version}
	for k, h := range m.hist {
		c.hist[k] = append([]Ver(nil), h...)
	}
	return c
}

type ovEntry struct {
	val []byte
	del bool
}

// Overlay is one uncommitted write set.
type Overlay struct{ m map[string]ovEntry }

// NewOverlay returns an empty write set.
func NewOverlay() *Overlay { return &Overlay{m: map[string]ovEntry{}} }

// Len is the number of keys written in the overlay.
func (o *Overlay) Len() int { return len(o.m) }

// Set records a write.
func (o *Overlay) Set(k, v []byte) { o.m[string(k)] = ovEntry{val: bytes.Clone(v)} }

// Delete records a delete.
func (o *Overlay) Delete(k []byte) { o.m[string(k)] = ovEntry{del: true} }

// Deletes returns the number of delete entries.
func (o *Overlay) Deletes() int {
	n := 0
	for _, e := range o.m {
		if e.del {
			n++
		}
	}
	return n
}

func (o *Overlay) clone() *Overlay {
	c := NewOverlay()
	for k, e := range o.m {
		c.m[k] = ovEntry{val: bytes.Clone(e.val), del: e.del}
	}
	return c
}

// KV is one iteration result.
type KV struct{ Key, Value []byte }

// View reads a VMap as of a version through a stack of overlays and writes into the top overlay.
type View struct {
	Base     *VMap
	At       uint64 // version the committed part is read at; Latest follows Base.Version()
	Overlays []*Overlay
}

// NewView returns a view with one (top-level) overlay.
func NewView(base *VMap, at uint64) *View {
	return &View{Base: base, At: at, Overlays: []*Overlay{NewOverlay()}}
}

// ReadOnly returns a view without overlays as of version v.
func ReadOnly(base *VMap, v uint64) *View { return &View{Base: base, At: v} }

// Depth is the number of nested overlays above the top-level one.
func (w *View) Depth() int { return len(w.Overlays) - 1 }

// Top is the overlay writes go to.
func (w *View) Top() *Overlay { return w.Overlays[len(w.Overlays)-1] }

// Set writes into the top overlay.
func (w *View) Set(k, v []byte) { w.Top().Set(k, v) }

// Delete deletes in the top overlay.
func (w *View) Delete(k []byte) { w.Top().Delete(k) }

// Push opens a nested overlay.
func (w *View) Push() { w.Overlays = append(w.Overlays, NewOverlay()) }

// FlushTop merges the top overlay into the one below and empties it (the overlay stays open).
func (w *View) FlushTop() {
	n := len(w.Overlays)
	top, below := w.Overlays[n-1], w.Overlays[n-2]
	for k, e := range top.m {
		below.m[k] = e
	}
	top.m = map[string]ovEntry{}
}

// DiscardTop empties the top overlay (the overlay stays open).
func (w *View) DiscardTop() { w.Top().m = map[string]ovEntry{} }

// Pop closes the top nested overlay (whatever is left in it is dropped).
func (w *View) Pop() { w.Overlays = w.Overlays[:len(w.Overlays)-1] }

// Level returns a view that sees only overlays[0..level] (a parent while children are open).
func (w *View) Level(level int) *View {
	return &View{Base: w.Base, At: w.At, Overlays: w.Overlays[:level+1]}
}

// Fork returns an independent copy: overlays deep-copied, committed part pinned to the current version.
func (w *View) Fork() *View {
	at := w.At
	if at == Latest {
		at = w.Base.Version()
	}
	c := &View{Base: w.Base, At: at}
	for _, o := range w.Overlays {
		c.Overlays = append(c.Overlays, o.clone())
	}
	return c
}

// Get returns the value of the key through the overlays.
func (w *View) Get(k []byte) (val []byte, present bool) {
	for i := len(w.Overlays) - 1; i >= 0; i-- {
		if e, ok := w.Overlays[i].m[string(k)]; ok {
			if e.del {
				return nil, false
			}
			return e.val, true
		}
	}
	return w.Base.GetAt(k, w.At)
}

// Iterate returns every present key with the byte prefix, ascending (or descending), with its value.
func (w *View) Iterate(prefix []byte, reverse bool) []KV {
	cand := map[string]struct{}{}
	for k := range w.Base.hist {
		if bytes.HasPrefix([]byte(k), prefix) {
			cand[k] = struct{}{}
		}
	}
	for _, o := range w.Overlays {
		for k := range o.m {
			if bytes.HasPrefix([]byte(k), prefix) {
				cand[k] = struct{}{}
			}
		}
	}
	keys := make([]string, 0, len(cand))
	for k := range cand {
		keys = append(keys, k)
	}
	sort.Strings(keys)
	if reverse {
		for i, j := 0, len(keys)-1; i < j; i, j = i+1, j-1 {
			keys[i], keys[j] = keys[j], keys[i]
		}
	}
	var out []KV
	for _, k := range keys {
		if v, ok := w.Get([]byte(k)); ok {
			out = append(out, KV{Key: []byte(k), Value: v})
		}
	}
	return out
}

// State returns the full visible key/value set.
func (w *View) State() map[string][]byte {
	out := map[string][]byte{}
	for _, kv := range w.Iterate(nil, false) {
		out[string(kv.Key)] = kv.Value
	}
	return out
}
