// Package storemodel holds the reference models the store properties are compared against.
//
// smtref.go: an independent reference of canopy's sparse-Merkle state commitment, written from the
// documentation block in store/smt.go (not from its code):
//   - leaves: two sentinels (160 zero bits -> value 20x00, 160 one bits -> value 20xFF) plus, for each
//     state entry, leaf key = first keyBits bits of sha256(key), leaf value = sha256(value);
//   - the tree is the canonical compressed binary trie over the leaf bit strings: an inner node's key is
//     the greatest common prefix of the leaves below it, and it always has exactly two children;
//   - a node key is encoded as the bit string packed left to right into bytes, the last (partial) byte
//     right-aligned, followed by one meta byte = number of leading zero bits in that last chunk that are
//     not representable by the byte value (an all-zero chunk of L bits has meta L-1);
//   - node value = sha256(leftKey | leftValue | rightKey | rightValue); the root's value is the commitment.
package storemodel

import (
	"bytes"
	"crypto/sha256"
	"math/bits"
	"sort"
)

// Bits is a bit string, one byte per bit (0/1), most significant first.
type Bits []byte

// BitsOf returns the first n bits of data.
func BitsOf(data []byte, n int) Bits {
	b := make(Bits, n)
	for i := 0; i < n; i++ {
		b[i] = (data[i/8] >> (7 - uint(i%8))) & 1
	}
	return b
}

// EncodeKey encodes a bit string (len>=1) in canopy's node-key format.
func EncodeKey(b Bits) []byte {
	n := len(b)
	if n == 0 {
		return []byte{0, 0}
	}
	full := (n - 1) / 8 // number of full leading bytes (the last chunk has 1..8 bits)
	out := make([]byte, 0, full+2)
	for i := 0; i < full; i++ {
		var v byte
		for j := 0; j < 8; j++ {
			v = v<<1 | b[i*8+j]
		}
		out = append(out, v)
	}
	chunk := b[full*8:]
	var v byte
	for _, x := range chunk {
		v = v<<1 | x
	}
	L := len(chunk)
	meta := L - bits.Len8(v)
	if v == 0 {
		meta = L - 1
	}
	return append(out, v, byte(meta))
}

// Leaf is one leaf of the reference tree.
type Leaf struct {
	Path  Bits
	Value []byte
}

// RefNode is a node of the reference tree (for structural checks and reference proofs).
type RefNode struct {
	Path        Bits
	Key         []byte // encoded
	Value       []byte
	Left, Right *RefNode
}

func hash(b []byte) []byte { h := sha256.Sum256(b); return h[:] }

// LeafFor returns the leaf for a state entry at the given key length.
func LeafFor(key, value []byte, keyBits int) Leaf {
	return Leaf{Path: BitsOf(hash(key), keyBits), Value: hash(value)}
}

// Sentinels returns the min and max sentinel leaves.
func Sentinels(keyBits int) (Leaf, Leaf) {
	return Leaf{Path: BitsOf(bytes.Repeat([]byte{0}, 20), keyBits), Value: bytes.Repeat([]byte{0}, 20)},
		Leaf{Path: BitsOf(bytes.Repeat([]byte{0xFF}, 20), keyBits), Value: bytes.Repeat([]byte{0xFF}, 20)}
}

// BuildTree builds the canonical tree over the state entries (map key -> value) and returns its root node.
func BuildTree(state map[string][]byte, keyBits int) *RefNode {
	mn, mx := Sentinels(keyBits)
	leaves := []Leaf{mn, mx}
	for k, v := range state {
		leaves = append(leaves, LeafFor([]byte(k), v, keyBits))
	}
	return BuildFromLeaves(leaves)
}

// BuildFromLeaves builds the canonical tree over explicit leaves (paths must be distinct).
func BuildFromLeaves(leaves []Leaf) *RefNode {
	sort.Slice(leaves, func(i, j int) bool { return bytes.Compare(leaves[i].Path, leaves[j].Path) < 0 })
	return build(leaves)
}

func build(ls []Leaf) *RefNode {
	if len(ls) == 1 {
		return &RefNode{Path: ls[0].Path, Key: EncodeKey(ls[0].Path), Value: ls[0].Value}
	}
	first, last := ls[0].Path, ls[len(ls)-1].Path
	g := 0
	for g < len(first) && g < len(last) && first[g] == last[g] {
		g++
	}
	// split at bit g
	i := sort.Search(len(ls), func(i int) bool { return ls[i].Path[g] == 1 })
	l, r := build(ls[:i]), build(ls[i:])
	n := &RefNode{Path: first[:g], Key: EncodeKey(first[:g]), Left: l, Right: r}
	buf := make([]byte, 0, len(l.Key)+len(l.Value)+len(r.Key)+len(r.Value))
	buf = append(append(append(append(buf, l.Key...), l.Value...), r.Key...), r.Value...)
	n.Value = hash(buf)
	return n
}

// Root returns the reference commitment of a state.
func Root(state map[string][]byte) []byte { return BuildTree(state, 160).Value }

// Count returns number of nodes in the tree.
func (n *RefNode) Count() int {
	if n == nil {
		return 0
	}
	return 1 + n.Left.Count() + n.Right.Count()
}

// Walk visits every node.
func (n *RefNode) Walk(f func(*RefNode)) {
	if n == nil {
		return
	}
	f(n)
	n.Left.Walk(f)
	n.Right.Walk(f)
}

// Descend returns the nodes visited when walking from the root towards a leaf position (root first). The walk ends
// at the first node whose path is not a proper prefix-compatible ancestor of target (like the real traversal does),
// i.e. at the leaf for a present key, or at the node where an absent key would be inserted.
func (n *RefNode) Descend(target Bits) []*RefNode {
	var path []*RefNode
	cur := n
	for cur != nil {
		path = append(path, cur)
		if cur.Left == nil {
			return path
		}
		// cur is an inner node with path = common prefix; does target still follow it?
		p := cur.Path
		if len(p) > len(target) || !bytes.Equal(p, target[:len(p)]) {
			return path
		}
		if target[len(p)] == 0 {
			cur = cur.Left
		} else {
			cur = cur.Right
		}
	}
	return path
}

// ProofNode mirrors lib.Node's proof fields.
type ProofNode struct {
	Key, Value []byte
	Bitmask    int32
}

// ProofFromPath builds a proof in canopy's format that starts at path[len(path)-1] (which may be an inner node) and
// lists the sibling of every node on the way up: Bitmask 0 = sibling is the left child, 1 = sibling is the right child.
func ProofFromPath(path []*RefNode) []ProofNode {
	last := path[len(path)-1]
	out := []ProofNode{{Key: last.Key, Value: last.Value}}
	for i := len(path) - 1; i > 0; i-- {
		parent, node := path[i-1], path[i]
		if parent.Left == node {
			out = append(out, ProofNode{Key: parent.Right.Key, Value: parent.Right.Value, Bitmask: 1})
		} else {
			out = append(out, ProofNode{Key: parent.Left.Key, Value: parent.Left.Value, Bitmask: 0})
		}
	}
	return out
}

// DecodeKey inverts EncodeKey (returns nil for encodings that are not well formed).
func DecodeKey(enc []byte) Bits {
	if len(enc) < 2 {
		return nil
	}
	data, meta := enc[:len(enc)-1], int(enc[len(enc)-1])
	v := data[len(data)-1]
	bl := bits.Len8(v)
	if bl == 0 {
		bl = 1
	}
	L := meta + bl
	if L > 8 {
		return nil
	}
	out := make(Bits, 0, (len(data)-1)*8+L)
	for _, b := range data[:len(data)-1] {
		for j := 7; j >= 0; j-- {
			out = append(out, (b>>uint(j))&1)
		}
	}
	for j := L - 1; j >= 0; j-- {
		out = append(out, (v>>uint(j))&1)
	}
	return out
}
