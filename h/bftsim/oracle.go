package bftsim

import (
	"bytes"
	"encoding/hex"
	"fmt"
)

// SafetyReport is the result of evaluating the C01 invariants over the history of a Sim.
type SafetyReport struct {
	Agreement []string // (a)
	Validity  []string // (b)
	CertPower []string // (c)
	DoubleSig []string // (d) honest single-vote
}

// Violations returns (a)-(c) and, when includeD is set, (d).
func (r *SafetyReport) Violations(includeD bool) (out []string) {
	out = append(out, r.Agreement...)
	out = append(out, r.Validity...)
	out = append(out, r.CertPower...)
	if includeD {
		out = append(out, r.DoubleSig...)
	}
	return
}

// CheckSafety evaluates the invariants over everything that happened so far.
//
//	(a) agreement: all commits of correct replicas at the height carry the same (blockHash, resultsHash)
//	(b) validity: a committed block was proposed (travelled in a PROPOSE message) in this height before the commit
//	(c) the committing certificate is a PRECOMMIT_VOTE certificate for the committed hashes whose bitmap, recounted
//	    with big integers independently of lib, carries >= floor(2T/3)+1 power, and every CORRECT signer named in
//	    the bitmap really signed exactly that payload (ledger of signatures, independent of BLS aggregation)
//	(d) no correct replica signed two different payloads in one view (Height, RootHeight, Round, Phase)
func (s *Sim) CheckSafety() *SafetyReport {
	rep := &SafetyReport{}
	var first *CommitRec
	for _, c := range s.Commits {
		if s.R[c.Replica].Byz {
			continue
		}
		if c.Height != s.Height {
			rep.Agreement = append(rep.Agreement, fmt.Sprintf("(a) replica %d committed a certificate of height %d in height %d", c.Replica, c.Height, s.Height))
		}
		if first == nil {
			first = c
		} else if !bytes.Equal(first.BlockHash, c.BlockHash) || !bytes.Equal(first.ResultsHash, c.ResultsHash) {
			rep.Agreement = append(rep.Agreement, fmt.Sprintf("(a) AGREEMENT: replica %d committed block %s/results %s (cert root %d round %d), replica %d committed block %s/results %s (cert root %d round %d)",
				first.Replica, short(first.BlockHash), short(first.ResultsHash), first.QC.Header.RootHeight, first.QC.Header.Round,
				c.Replica, short(c.BlockHash), short(c.ResultsHash), c.QC.Header.RootHeight, c.QC.Header.Round))
		}
		at, ok := s.Proposed[hex.EncodeToString(c.BlockHash)]
		if !ok || at > c.Step {
			rep.Validity = append(rep.Validity, fmt.Sprintf("(b) VALIDITY: replica %d committed block %s that nobody proposed before", c.Replica, short(c.BlockHash)))
		}
		q := c.QC
		if q.Header.Phase != PrecommitVote {
			rep.CertPower = append(rep.CertPower, fmt.Sprintf("(c) replica %d committed on a %s certificate", c.Replica, phaseShort[q.Header.Phase]))
		}
		if !bytes.Equal(q.BlockHash, c.BlockHash) || !bytes.Equal(q.ResultsHash, c.ResultsHash) {
			rep.CertPower = append(rep.CertPower, fmt.Sprintf("(c) replica %d: certificate hashes differ from the commit record", c.Replica))
		}
		if q.Signature == nil || s.BitmapPower(q.Signature.Bitmap).Cmp(s.MinMaj()) < 0 {
			rep.CertPower = append(rep.CertPower, fmt.Sprintf("(c) CERTIFICATE: replica %d committed on a certificate with power %v < %v (T=%d)", c.Replica, s.BitmapPower(q.Signature.Bitmap), s.MinMaj(), s.Total))
		} else {
			for _, i := range s.BitmapSigners(q.Signature.Bitmap) {
				if !s.R[i].Byz && !s.HasSigned(i, q) {
					rep.CertPower = append(rep.CertPower, fmt.Sprintf("(c) CERTIFICATE: replica %d committed on a certificate naming correct validator %d which never signed that payload", c.Replica, i))
				}
			}
		}
	}
	rep.DoubleSig = append(rep.DoubleSig, s.DoubleSig...)
	return rep
}

// CommittedCorrect counts the correct replicas that committed.
func (s *Sim) CommittedCorrect() (n int) {
	for _, r := range s.R {
		if !r.Byz && r.Committed != nil {
			n++
		}
	}
	return
}
