package bftsim

import (
	"container/heap"
	"fmt"
	"math/rand/v2"
	"time"

	"github.com/canopy-network/canopy/lib"
)

// SyncOpts describes the synchronous suffix of a C15 case: the harness owns a virtual clock, every correct
// replica's timer fires at now + b.WaitTime(phase, round), every message of a correct replica arrives within Delta.
type SyncOpts struct {
	Delta                               time.Duration // upper bound of the latency of messages sent by correct replicas (and of the late arrival of old messages)
	Rng                                 *rand.Rand
	ByzMode                             string                       // silent | honestlike | withhold-leader | equivocate | inflated-pacemaker | wrong-phase-commit | stale-election-cert | highqc-without-block
	ExtraRounds                         uint64                       // give up once a correct replica's round exceeds RGst + ExtraRounds
	ForgedBuildHeightOnlyToLockedLeader bool                         // highqc-wrong-build-height-last: only towards a leader that holds that very lock itself (see the check)
	Limit                               func(res *SyncResult) uint64 // when set: computes ExtraRounds from what is known at GST (Aligned, CapRounds)
	MaxEvents                           int
	Old                                 string // which undelivered pre-GST messages still arrive: "relevant" (current root, round >= the lowest current round, block gossip) | "all"
	Hooks                               *SyncHooks
}

// SyncHooks let a check add Byzantine behaviour to the suffix.
type SyncHooks struct {
	// OnByzTimer runs after Byzantine engine d's timer fired; returned envelopes are sent to their To lists with latency.
	OnByzTimer func(s *Sim, d int, now time.Duration) []*Env
	// OnCorrectSend lets Byzantine validators react to what a correct replica just sent.
	OnCorrectSend func(s *Sim, e *Env, now time.Duration) []*Env
}

// SyncResult is what the suffix measured.
type SyncResult struct {
	RGst, REnd   uint64
	Root         uint64
	AllCommitted bool
	ByzLed       int // rounds in (RGst, REnd] whose predicted leader is Byzantine
	Elapsed      int // REnd - RGst
	Events       int
	Virtual      time.Duration
	SpreadRounds uint64 // max-min round of the correct replicas at GST
	LockedAtGst  int
	GaveUp       string
	Aligned      bool  // correct replicas holding >= 2T/3+1 were in round RGst at GST (they are phase-aligned by construction)
	Group        []int // those replicas
	CapRounds    int   // first-principles cap: by round RGst+CapRounds the smallest phase timeout exceeds the worst timer misalignment (the round lengths from the lowest round at GST up to the front round)
}

type event struct {
	at   time.Duration
	seq  int
	kind int // 0 timer, 1 arrival
	i    int // replica
	id   int // envelope
}

type evq []*event

func (q evq) Len() int { return len(q) }
func (q evq) Less(a, b int) bool {
	if q[a].at != q[b].at {
		return q[a].at < q[b].at
	}
	return q[a].seq < q[b].seq
}
func (q evq) Swap(a, b int) { q[a], q[b] = q[b], q[a] }
func (q *evq) Push(x any)   { *q = append(*q, x.(*event)) }
func (q *evq) Pop() any {
	o := *q
	n := len(o)
	x := o[n-1]
	*q = o[:n-1]
	return x
}

// pendingWait is the wait the replica is in the middle of (what SetTimerForNextPhase armed after its last handler).
func pendingWait(r *Replica) time.Duration {
	b := r.B
	switch b.Phase {
	case Election:
		return 0
	case Pacemaker:
		return b.WaitTime(RoundInterrupt, b.Round)
	case lib.Phase_UNKNOWN:
		return 0
	default:
		return b.WaitTime(b.Phase-1, b.Round)
	}
}

// MinTimeout is the smallest configured phase timeout (round 0).
func (s *Sim) MinTimeout() time.Duration {
	b := s.R[0].B
	m := b.WaitTime(Election, 0)
	for _, p := range []lib.Phase{ElectionVote, Propose, ProposeVote, Precommit, PrecommitVote, Commit} {
		if w := b.WaitTime(p, 0); w < m {
			m = w
		}
	}
	return m
}

// RunSynchronous plays the synchronous suffix from the current state of the world (GST = now).
func (s *Sim) RunSynchronous(o SyncOpts) *SyncResult {
	res := &SyncResult{}
	s.StopAt = 0
	rng := o.Rng
	lat := func() time.Duration { return time.Duration(rng.Int64N(int64(o.Delta) + 1)) }
	s.logf("{GST delta=%v byz=%s}", o.Delta, o.ByzMode)
	// the root-chain notification reaches everybody
	root := s.MaxRoot()
	res.Root = root
	for _, r := range s.R {
		for r.C.rootH < root && r.Committed == nil {
			s.RootBump(r.Idx)
		}
	}
	var correct []int
	minRound, maxRound := ^uint64(0), uint64(0)
	for _, r := range s.R {
		if r.Byz {
			continue
		}
		correct = append(correct, r.Idx)
		if r.Committed != nil {
			continue
		}
		if r.B.Round > maxRound {
			maxRound = r.B.Round
		}
		if r.B.Round < minRound {
			minRound = r.B.Round
		}
		if r.B.HighQC != nil {
			res.LockedAtGst++
		}
	}
	if minRound == ^uint64(0) {
		minRound = 0
	}
	res.RGst, res.SpreadRounds = maxRound, maxRound-minRound
	q := &evq{}
	seq := 0
	push := func(e *event) { seq++; e.seq = seq; heap.Push(q, e) }
	// timers. The harness owns the clock: replicas that are in the same round are phase-aligned (they started the round at
	// the same instant S), a replica that is k phases behind fires k phases later; +jitter below Delta/2.
	cum := func(r *Replica) time.Duration {
		b := r.B
		var c time.Duration
		switch b.Phase {
		case Pacemaker: // waiting out the rest of an interrupted round
			for p := Election; p <= Commit; p++ {
				c += b.WaitTime(p, b.Round)
			}
		case Election, lib.Phase_UNKNOWN:
		default:
			for p := Election; p < b.Phase; p++ {
				c += b.WaitTime(p, b.Round)
			}
		}
		return c
	}
	var base time.Duration = -1
	for _, r := range s.R {
		if r.Committed != nil || r.Stuck || (r.Byz && o.ByzMode == "silent") {
			continue
		}
		if c := cum(r); base < 0 || c < base {
			base = c
		}
	}
	for _, r := range s.R {
		if r.Committed != nil || r.Stuck || (r.Byz && o.ByzMode == "silent") {
			continue
		}
		push(&event{at: cum(r) - base + time.Duration(rng.Int64N(int64(o.Delta)/2+1)), kind: 0, i: r.Idx})
	}
	// the group of correct replicas in the front round
	var gp uint64
	for _, i := range correct {
		if r := s.R[i]; r.Committed == nil && !r.Stuck && r.B.Round == maxRound {
			res.Group = append(res.Group, i)
			gp += s.Cfg.Power[i]
		}
	}
	res.Aligned = gp >= s.VS.MinimumMaj23
	{
		b := s.R[0].B
		var sum time.Duration
		for p := Election; p <= Commit; p++ {
			sum += b.WaitTime(p, 0)
		}
		// the worst timer misalignment a correct replica can carry: one that cannot fast-forward (the replicas ahead of it hold
		// less than 1/3) walks from the lowest round at GST up to the front round, one full round length after the other
		var units float64
		for r := minRound; r <= maxRound+1; r++ {
			units += float64(2*r + 1)
		}
		x := float64(sum)*units/float64(s.MinTimeout()) + 1
		res.CapRounds = int(x/2) + 1 - int(maxRound)
		if res.CapRounds < 1 {
			res.CapRounds = 1
		}
	}
	// old messages finally arrive (within Delta)
	for _, e := range s.Pool {
		if e.Crafted && s.R[e.From].Byz {
			continue // the adversary is under no obligation
		}
		if s.R[e.From].Byz && o.ByzMode == "silent" {
			continue
		}
		rel := e.Kind == "BLOCK" || (e.View.RootHeight == root && e.View.Round >= minRound)
		if o.Old != "all" && !rel {
			continue
		}
		for _, to := range e.To {
			if !s.WasDelivered(e.ID, to) && s.R[to].Committed == nil && !(s.R[to].Byz && o.ByzMode == "silent") {
				push(&event{at: lat(), kind: 1, i: to, id: e.ID})
			}
		}
	}
	send := func(now time.Duration, envs []*Env) {
		for _, e := range envs {
			for _, to := range e.To {
				if s.R[to].Byz && o.ByzMode == "silent" {
					continue
				}
				l := lat()
				if e.Timing < 0 {
					l = 0
				} else if e.Timing > 0 {
					l = o.Delta
				}
				push(&event{at: now + l, kind: 1, i: to, id: e.ID})
			}
		}
	}
	allDone := func() bool {
		for _, i := range correct {
			if s.R[i].Committed == nil {
				return false
			}
		}
		return true
	}
	roundAtCommit := map[int]uint64{}
	noteCommits := func() {
		for _, i := range correct {
			if _, ok := roundAtCommit[i]; !ok && s.R[i].Committed != nil {
				roundAtCommit[i] = s.R[i].B.Round
				if s.R[i].C.rootH != root {
					roundAtCommit[i] = 0
				}
			}
		}
	}
	noteCommits()
	if o.Limit != nil {
		o.ExtraRounds = o.Limit(res)
	}
	var now time.Duration
	eq := map[int]bool{} // equivocate: rounds already split
	reacted := map[string]bool{}
	for q.Len() > 0 && !allDone() {
		ev := heap.Pop(q).(*event)
		now = ev.at
		res.Events++
		if o.MaxEvents > 0 && res.Events > o.MaxEvents {
			res.GaveUp = "event budget"
			break
		}
		r := s.R[ev.i]
		if ev.kind == 1 {
			_ = s.Deliver(ev.id, ev.i)
			noteCommits()
			continue
		}
		if r.Committed != nil || r.Stuck {
			continue
		}
		if !r.Byz && r.B.Round > res.RGst+o.ExtraRounds {
			res.GaveUp = fmt.Sprintf("replica %d reached round %d", r.Idx, r.B.Round)
			break
		}
		s.logf("@%dms", now.Milliseconds())
		sent := s.FireTimer(ev.i)
		noteCommits()
		if r.Committed == nil && !r.Stuck {
			var w time.Duration
			switch r.B.Phase {
			case Pacemaker:
				w = r.B.WaitTime(RoundInterrupt, r.B.Round)
			case Election:
				w = 0
			default:
				w = r.B.WaitTime(r.B.Phase-1, r.B.Round)
			}
			push(&event{at: now + w, kind: 0, i: ev.i})
		}
		if !r.Byz {
			send(now, sent)
			for _, e := range sent {
				send(now, s.byzReact(o.ByzMode, e, reacted, o.ForgedBuildHeightOnlyToLockedLeader))
			}
			if o.Hooks != nil && o.Hooks.OnCorrectSend != nil {
				for _, e := range sent {
					send(now, o.Hooks.OnCorrectSend(s, e, now))
				}
			}
			continue
		}
		// a Byzantine engine spoke
		for _, e := range sent {
			switch o.ByzMode {
			case "honestlike":
				send(now, []*Env{e})
			case "withhold-leader":
				if e.Kind != "PR" && e.Kind != "PC" && e.Kind != "CM" {
					send(now, []*Env{e})
				}
			case "inflated-pacemaker", "stale-election-cert", "highqc-without-block", "highqc-wrong-build-height-last", "highqc-wrong-build-height-first":
				send(now, []*Env{e})
			case "wrong-phase-commit":
				// behaves until PRECOMMIT, then COMMIT carries the PROPOSE_VOTE certificate again
				if pc := s.LeaderMsg(e.From, e.View.RootHeight, e.View.Round, "PC"); e.Kind == "CM" && pc != nil {
					send(now, []*Env{s.CraftJustified(e.From, e.View.RootHeight, e.View.Round, Commit, pc.Msg.Qc, e.Msg.RcBuildHeight, e.To)})
				} else {
					send(now, []*Env{e})
				}
			case "equivocate":
				if e.Kind == "PR" && !eq[int(e.View.Round)] {
					eq[int(e.View.Round)] = true
					var a, b []int
					for k, to := range e.To {
						if k%2 == 0 {
							a = append(a, to)
						} else {
							b = append(b, to)
						}
					}
					alt := s.NewProposal(e.From, fmt.Sprintf("eq/%d/%d", e.View.RootHeight, e.View.Round), e.View.RootHeight)
					c := s.CraftPropose(e.From, e.View.RootHeight, e.View.Round, e.Msg.Qc, alt, nil, nil, b)
					e.To = a
					send(now, []*Env{e, c})
				} else if e.Kind != "PC" && e.Kind != "CM" {
					send(now, []*Env{e})
				}
			}
		}
		if o.ByzMode == "inflated-pacemaker" {
			send(now, []*Env{s.CraftPacemaker(ev.i, r.C.rootH, r.B.Round+uint64(1+rng.IntN(40)), s.othersOf(ev.i))})
		}
		if o.Hooks != nil && o.Hooks.OnByzTimer != nil {
			send(now, o.Hooks.OnByzTimer(s, ev.i, now))
		}
	}
	res.Virtual = now
	res.AllCommitted = allDone()
	for _, i := range correct {
		rd, ok := roundAtCommit[i]
		if !ok {
			rd = s.R[i].B.Round
		}
		if rd > res.REnd {
			res.REnd = rd
		}
	}
	res.Elapsed = int(res.REnd) - int(res.RGst)
	inGroup := map[int]bool{}
	for _, i := range res.Group {
		inGroup[i] = true
	}
	for rd := res.RGst + 1; rd <= res.REnd; rd++ {
		// a round is not counted against the code when its predicted leader is Byzantine/silent, or (aligned cases) a
		// correct replica that was not in the front round at GST (a laggard is as good as silent for its round)
		if l := s.PredictedLeader(root, rd); s.R[l].Byz || (res.Aligned && !inGroup[l]) {
			res.ByzLed++
		}
	}
	return res
}

func (s *Sim) othersOf(i int) (out []int) {
	for k := range s.R {
		if k != i {
			out = append(out, k)
		}
	}
	return
}

// byzReact: what the Byzantine validators send in reaction to a correct replica's message (suffix modes that replay
// certificates inside new messages).
func (s *Sim) byzReact(mode string, e *Env, done map[string]bool, onlyLockedLeader bool) (out []*Env) {
	byz := s.Byzantine()
	if len(byz) == 0 {
		return nil
	}
	key := fmt.Sprintf("%s/%d/%d", e.Kind, e.View.RootHeight, e.View.Round)
	switch mode {
	case "stale-election-cert":
		// a correct leader proposed: a Byzantine validator that was elected in an earlier round of this root height
		// proposes too, justified by its old election certificate
		if e.Kind != "PR" || done[key] {
			return nil
		}
		for _, d := range byz {
			old := s.FindEnv(func(x *Env) bool {
				return x.Kind == "PR" && x.From == d && !x.Crafted && x.View.RootHeight == e.View.RootHeight && x.View.Round < e.View.Round
			})
			if old == nil {
				continue
			}
			done[key] = true
			var to []int
			for _, i := range s.Honest() {
				to = append(to, i)
			}
			return []*Env{s.CraftPropose(d, e.View.RootHeight, e.View.Round, old.Msg.Qc, s.NewProposal(d, "hijack/"+key, e.View.RootHeight), nil, nil, to)}
		}
	case "highqc-wrong-build-height-last", "highqc-wrong-build-height-first":
		// every time a correct replica votes in an election, a Byzantine voter votes too: it copies the highest genuine
		// certificate (with its block and results) as HighQc and claims a build height of 0 (the field is unsigned)
		if e.Kind != "ELV" {
			return nil
		}
		var best *lib.QuorumCertificate
		for _, c := range s.Certs() {
			if c.Header.Phase == ProposeVote && c.Header.Height == s.Height && s.CertPower(c) >= s.VS.MinimumMaj23 && s.FindProposal(c.BlockHash, c.ResultsHash) != nil &&
				(best == nil || best.Header.Less(c.Header)) {
				best = c
			}
		}
		leader := s.IdxOf(e.Msg.Qc.ProposerKey)
		if best == nil || leader < 0 || s.R[leader].Byz {
			return nil
		}
		if h := s.R[leader].B.HighQC; onlyLockedLeader && mode == "highqc-wrong-build-height-last" &&
			(h == nil || string(h.BlockHash) != string(best.BlockHash) || h.Header.Less(best.Header) || best.Header.Less(h.Header)) {
			return nil
		}
		p := s.FindProposal(best.BlockHash, best.ResultsHash)
		hq := cloneQC(best)
		hq.Block, hq.Results = p.Block, p.Results
		v := s.CraftVoteBuild(byz[0], s.ElectionVotePayload(e.View.RootHeight, e.View.Round, leader), hq, 0, []int{leader})
		v.Timing = 1
		if mode == "highqc-wrong-build-height-first" {
			v.Timing = -1
		}
		return []*Env{v}
	case "highqc-without-block":
		// election votes are under way: a Byzantine voter reports the highest certificate it knows as HighQc, without the block
		if e.Kind != "ELV" || done[key] {
			return nil
		}
		var best *lib.QuorumCertificate
		for _, c := range s.Certs() {
			if c.Header.Phase == ProposeVote && c.Header.Height == s.Height && s.CertPower(c) >= s.VS.MinimumMaj23 && (best == nil || best.Header.Less(c.Header)) {
				best = c
			}
		}
		leader := s.IdxOf(e.Msg.Qc.ProposerKey)
		if best == nil || leader < 0 || s.R[leader].Byz {
			return nil
		}
		done[key] = true
		hq := cloneQC(best)
		hq.Block, hq.Results = nil, nil
		return []*Env{s.CraftVote(byz[0], s.ElectionVotePayload(e.View.RootHeight, e.View.Round, leader), hq, nil, []int{leader})}
	}
	return nil
}
