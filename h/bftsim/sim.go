// Package bftsim runs N real bft.BFT replicas in one process, each behind a mock bft.Controller, with a
// harness-owned network (a pool that keeps every message ever sent) and a harness-owned scheduler.
//
// Nothing in here decides anything by itself: timers fire when the caller says so (FireTimer = HandlePhase),
// messages are delivered when the caller says so (Deliver), root-height bumps happen when the caller says so.
// Every validator - correct or Byzantine - owns a real engine; a Byzantine validator can additionally sign
// arbitrary crafted messages (Craft*/SignVote) and the caller decides which of its engine's messages reach anybody.
//
// Fidelity notes (what the mock controller mirrors from /repo/controller):
//   - SendToReplicas / SendToProposer sign with the validator key; the copy to self is routed immediately
//     (P2P.SelfSend), copies to peers go through the pool.
//   - SelfSendBlock applies the certificate gate of Controller.HandlePeerBlock (CheckBasic, committee of the
//     certificate's root height, QuorumCertificate.Check, +2/3, CheckProposalBasic, phase == PRECOMMIT_VOTE)
//     before a commit is recorded; a committed replica leaves the height (it would be at height+1).
//   - ProduceProposal fills SlashRecipients from ProcessDSE as Controller.CalculateSlashRecipients does;
//     ValidateProposal = CheckProposalBasic + ValidateByzantineEvidence + "recomputed slash list is equal".
//   - LoadCommittee answers the fixed committee for every root height (committee-preserving updates only).
package bftsim

import (
	"bytes"
	"encoding/binary"
	"encoding/hex"
	"fmt"
	"math/big"
	"sort"
	"strings"
	"sync"
	"sync/atomic"
	"time"

	"github.com/canopy-network/canopy/bft"
	"github.com/canopy-network/canopy/lib"
	"github.com/canopy-network/canopy/lib/crypto"
)

const (
	NetworkID = uint64(1)
	ChainID   = uint64(2) // a nested chain: root-chain updates arrive mid-height
	RootChain = uint64(1)
)

// Phase aliases.
const (
	Election       = lib.Phase_ELECTION
	ElectionVote   = lib.Phase_ELECTION_VOTE
	Propose        = lib.Phase_PROPOSE
	ProposeVote    = lib.Phase_PROPOSE_VOTE
	Precommit      = lib.Phase_PRECOMMIT
	PrecommitVote  = lib.Phase_PRECOMMIT_VOTE
	Commit         = lib.Phase_COMMIT
	CommitProcess  = lib.Phase_COMMIT_PROCESS
	RoundInterrupt = lib.Phase_ROUND_INTERRUPT
	Pacemaker      = lib.Phase_PACEMAKER
)

var phaseShort = map[lib.Phase]string{0: "UNK", Election: "EL", ElectionVote: "ELV", Propose: "PR", ProposeVote: "PRV",
	Precommit: "PC", PrecommitVote: "PCV", Commit: "CM", CommitProcess: "CMP", RoundInterrupt: "RI", Pacemaker: "PM"}

// PhaseName returns a short readable phase name.
func PhaseName(p lib.Phase) string { return phaseShort[p] }

// Config describes one simulated height.
type Config struct {
	Power      []uint64 // voting power per validator (len = N)
	Byz        []bool   // Byzantine validators
	Height     uint64   // chain height being decided (>= 1)
	RootHeight uint64   // root height at the start
	Seed       uint64   // feeds the last-proposers list (sortition seed) and key selection
	// phase timeouts in ms (0 = 1000); CommitTimeoutMS also is the real sleep of the commit goroutine, keep it small
	ElectionMS, ElectionVoteMS, ProposeMS, ProposeVoteMS, PrecommitMS, PrecommitVoteMS, CommitMS int
	PriorEvidence                                                                                bool // the correct replicas start the height holding double-sign evidence against the first Byzantine validator (collected at the end of the previous height)
	MinEvidenceHeight                                                                            uint64
	LastRootHeightUpdated                                                                        uint64 // CommitteeData.LastRootHeightUpdated
}

// V is a plain copy of a consensus view (lib.View is a protobuf message and must not be copied by value).
type V struct {
	Height, RootHeight, Round uint64
	Phase                     lib.Phase
}

// VOf copies a lib.View.
func VOf(v *lib.View) V {
	if v == nil {
		return V{}
	}
	return V{v.Height, v.RootHeight, v.Round, v.Phase}
}

func (v V) String() string {
	return fmt.Sprintf("(root %d round %d %s)", v.RootHeight, v.Round, phaseShort[v.Phase])
}

// Env is one message that was ever put on the network.
type Env struct {
	ID      int
	From    int          // signer
	To      []int        // intended recipients (self excluded: the copy to self is routed immediately)
	Raw     []byte       // marshalled bft.Message (nil for block gossip)
	Msg     *bft.Message // decoded private copy for inspection (never handed to a replica)
	Kind    string       // EL ELV PR PRV PC PCV CM PM BLOCK
	View    V            // proposer messages: Header; votes/pacemaker: Qc.Header
	Crafted bool         // built by the adversary, not by an engine
	Cert    *lib.QuorumCertificate
	SentAt  int // sim step
	Timing  int // suffix only: -1 = arrives at once, +1 = arrives after the full delta, 0 = generated latency
}

// CommitRec is one commit of one replica.
type CommitRec struct {
	Replica     int
	Height      uint64
	BlockHash   []byte
	ResultsHash []byte
	QC          *lib.QuorumCertificate
	Via         string // "bft" (own COMMIT_PROCESS) or "gossip" (certificate received from a peer)
	Step        int
}

// SigRec is one aggregable vote signature that exists in the world.
type SigRec struct {
	Signer  int
	View    V
	Payload string // hex of sha256(sign bytes)
	QC      *lib.QuorumCertificate
	Sig     []byte
}

// Replica is one validator.
type Replica struct {
	Idx       int
	Key       crypto.PrivateKeyI
	Pub       []byte
	Byz       bool
	B         *bft.BFT
	C         *ctl
	Committed *CommitRec
	Stuck     bool // reached COMMIT_PROCESS but the certificate gate refused: no timer is armed in the real node either
	LockedAt  []V
}

// Sim is the world.
type Sim struct {
	Cfg    Config
	N      int
	R      []*Replica
	VS     lib.ValidatorSet
	Total  uint64
	Height uint64
	Pool   []*Env
	Step   int
	Log    []string // readable schedule (actions + notable effects)

	Commits           []*CommitRec
	Sigs              []*SigRec
	sigIndex          map[string]map[string]*SigRec // "signer|view" -> payload -> rec
	DoubleSig         []string                      // honest double-sign descriptions (invariant d)
	Proposed          map[string]int                // block hash hex -> step first seen in a PROPOSE message
	GateFails         []string
	PacemakerMismatch []string // Pacemaker() results that differ from the documented rule (reference recomputation)
	LastProp          *lib.Proposers
	blockCtr          []int
	candCache         map[[2]uint64][]Cand
	delivered         map[[2]int]bool
	Stats             Stats
	StopAt            int // when > 0: timers and deliveries become no-ops once Step reaches it (the scenario is "cut" here)
	mu                sync.Mutex
	quiet             bool
}

// Stats are measured facts about a run used by the non-trivial rules of the checks.
type Stats struct {
	RoundChangeLocked int             // a correct replica entered a new round while locked
	BumpAfterCert     int             // a root bump reached a replica after a +2/3 certificate for a block existed
	FullCerts         int             // +2/3 PROPOSE_VOTE / PRECOMMIT_VOTE certificates seen in leader messages
	VotedBlocks       map[string]bool // block hashes that got at least one PROPOSE vote
	Unlocks           int             // a locked correct replica voted for a different block (safe-node liveness branch)
	GossipCommits     int
	Resets            int
}

// keys are derived from small integers, deterministically.
var (
	keyMu    sync.Mutex
	keyCache = map[int]crypto.PrivateKeyI{}
)

// Key returns the deterministic BLS key number i.
func Key(i int) crypto.PrivateKeyI {
	keyMu.Lock()
	defer keyMu.Unlock()
	if k, ok := keyCache[i]; ok {
		return k
	}
	var b [32]byte
	binary.BigEndian.PutUint64(b[24:], uint64(i)+1)
	b[0] = 0x01
	k, err := crypto.StringToBLS12381PrivateKey(hex.EncodeToString(b[:]))
	if err != nil {
		panic(err)
	}
	keyCache[i] = k
	return k
}

// New builds the world and starts every engine with NewHeight(false) as the reset path does.
func New(cfg Config) *Sim {
	n := len(cfg.Power)
	if cfg.Height == 0 {
		cfg.Height = 1
	}
	s := &Sim{Cfg: cfg, N: n, Height: cfg.Height, sigIndex: map[string]map[string]*SigRec{}, Proposed: map[string]int{}, blockCtr: make([]int, n)}
	s.Stats.VotedBlocks = map[string]bool{}
	cv := &lib.ConsensusValidators{}
	keyBase := int(cfg.Seed%8) * 8
	for i := 0; i < n; i++ {
		k := Key(keyBase + i)
		s.R = append(s.R, &Replica{Idx: i, Key: k, Pub: k.PublicKey().Bytes(), Byz: cfg.Byz[i]})
		cv.ValidatorSet = append(cv.ValidatorSet, &lib.ConsensusValidator{PublicKey: k.PublicKey().Bytes(), VotingPower: cfg.Power[i]})
		s.Total += cfg.Power[i]
	}
	vs, err := lib.NewValidatorSet(cv)
	if err != nil {
		panic(err)
	}
	s.VS = vs
	s.LastProp = &lib.Proposers{}
	for j := 0; j < 5; j++ {
		s.LastProp.Addresses = append(s.LastProp.Addresses, crypto.Hash([]byte(fmt.Sprintf("lastproposer/%d/%d", cfg.Seed, j)))[:20])
	}
	c := lib.DefaultConfig()
	c.RunVDF = false
	c.NetworkID = NetworkID
	c.ChainId = ChainID
	def := func(v int) int {
		if v == 0 {
			return 1000
		}
		return v
	}
	c.ElectionTimeoutMS, c.ElectionVoteTimeoutMS, c.ProposeTimeoutMS = def(cfg.ElectionMS), def(cfg.ElectionVoteMS), def(cfg.ProposeMS)
	c.ProposeVoteTimeoutMS, c.PrecommitTimeoutMS, c.PrecommitVoteTimeoutMS = def(cfg.ProposeVoteMS), def(cfg.PrecommitMS), def(cfg.PrecommitVoteMS)
	c.CommitTimeoutMS = cfg.CommitMS
	if c.CommitTimeoutMS == 0 {
		c.CommitTimeoutMS = 1
	}
	for i, r := range s.R {
		r.C = &ctl{s: s, i: i, rootH: cfg.RootHeight, syncing: &atomic.Bool{}, commitCh: make(chan struct{}, 16)}
		b, e := bft.New(c, r.Key, cfg.RootHeight, cfg.Height, r.C, false, nil, lib.NewNullLogger())
		if e != nil {
			panic(e)
		}
		b.ValidatorSet = vs
		b.CommitteeData = &lib.CommitteeData{ChainId: ChainID, LastRootHeightUpdated: cfg.LastRootHeightUpdated, LastChainHeightUpdated: cfg.Height - 1}
		r.B = b
		b.NewHeight(false)
	}
	if cfg.PriorEvidence && len(s.Byzantine()) > 0 && cfg.RootHeight > 0 {
		d := s.Byzantine()[0]
		view := s.HeaderView(cfg.RootHeight-1, 0, PrecommitVote)
		a, b := s.NewProposal(d, "prior-evidence/A", cfg.RootHeight-1), s.NewProposal(d, "prior-evidence/B", cfg.RootHeight-1)
		ca, _ := s.CraftCert(&lib.QuorumCertificate{Header: view, BlockHash: a.BlockHash, ResultsHash: a.ResultsHash, ProposerKey: s.R[d].Pub}, []int{d})
		cb, _ := s.CraftCert(&lib.QuorumCertificate{Header: view, BlockHash: b.BlockHash, ResultsHash: b.ResultsHash, ProposerKey: s.R[d].Pub}, []int{d})
		for _, r := range s.R {
			if !r.Byz {
				_ = r.B.AddDSE(&r.B.ByzantineEvidence.DSE, &bft.DoubleSignEvidence{VoteA: cloneQC(ca), VoteB: cloneQC(cb)})
			}
		}
	}
	return s
}

// Close releases the real timers.
func (s *Sim) Close() {
	for _, r := range s.R {
		r.B.PhaseTimer.Stop()
	}
}

func (s *Sim) logf(f string, a ...any) {
	if s.quiet {
		return
	}
	s.Log = append(s.Log, fmt.Sprintf(f, a...))
}

// Note appends a free-form line to the schedule log.
func (s *Sim) Note(f string, a ...any) { s.logf(f, a...) }

// Wrap breaks a long text into lines of at most ~3000 characters (at spaces): failure messages end up as comment lines of
// rapid's fail file, which rapid reads back with a 64 KiB line limit.
func Wrap(text string) string {
	var b strings.Builder
	for len(text) > 3000 {
		k := strings.LastIndexByte(text[:3000], ' ')
		if k <= 0 {
			k = 3000
		}
		b.WriteString(text[:k])
		b.WriteString("\n  ")
		text = text[k:]
	}
	b.WriteString(text)
	return b.String()
}

// Descriptor returns the readable schedule.
func (s *Sim) Descriptor() string { return strings.Join(s.Log, " ") }

// MinMaj returns floor(2T/3)+1 computed independently of lib.
func (s *Sim) MinMaj() *big.Int {
	t := new(big.Int).SetUint64(s.Total)
	t.Mul(t, big.NewInt(2))
	t.Div(t, big.NewInt(3))
	return t.Add(t, big.NewInt(1))
}

// PowerOf sums the power of a set of validators.
func (s *Sim) PowerOf(idx []int) uint64 {
	var p uint64
	for _, i := range idx {
		p += s.Cfg.Power[i]
	}
	return p
}

// Honest lists the correct validators.
func (s *Sim) Honest() (out []int) {
	for _, r := range s.R {
		if !r.Byz {
			out = append(out, r.Idx)
		}
	}
	return
}

// Byzantine lists the Byzantine validators.
func (s *Sim) Byzantine() (out []int) {
	for _, r := range s.R {
		if r.Byz {
			out = append(out, r.Idx)
		}
	}
	return
}

// IdxOf maps a public key to the validator index (-1 if unknown).
func (s *Sim) IdxOf(pub []byte) int {
	for _, r := range s.R {
		if bytes.Equal(r.Pub, pub) {
			return r.Idx
		}
	}
	return -1
}

// ---------------------------------------------------------------------------------------------------------------
// scheduler API

// Active reports whether replica i still takes part in the height (not committed, not stuck).
func (s *Sim) Active(i int) bool { return s.R[i].Committed == nil && !s.R[i].Stuck }

// Halted reports whether the step budget (StopAt) is used up.
func (s *Sim) Halted() bool { return s.StopAt > 0 && s.Step >= s.StopAt }

// FireTimer is replica i's phase timer going off: HandlePhase(). Returns the envelopes it put on the network.
func (s *Sim) FireTimer(i int) []*Env {
	r := s.R[i]
	if !s.Active(i) || s.Halted() {
		return nil
	}
	s.Step++
	before := len(s.Pool)
	ph, rd, rh := r.B.Phase, r.B.Round, r.B.RootHeight
	hadLock := r.B.HighQC
	if ph == Pacemaker && hadLock != nil && !r.Byz {
		s.Stats.RoundChangeLocked++
	}
	wantRound, checkPM := uint64(0), false
	if ph == Pacemaker {
		wantRound, checkPM = s.refPacemaker(r), true
	}
	r.C.Lock()
	r.B.HandlePhase()
	r.C.Unlock()
	if checkPM && r.B.Round != wantRound && r.C.rootH == rh {
		s.PacemakerMismatch = append(s.PacemakerMismatch, fmt.Sprintf("replica %d: Pacemaker() left round %d for round %d, the documented rule (own round+1, or the highest round that validators holding >= ceil(T/3) have reached according to their pacemaker messages, if higher) gives %d; messages: %s",
			i, rd, r.B.Round, wantRound, s.pmDump(r)))
	}
	r.C.flushSelf()
	eff := ""
	if r.B.HighQC != nil && r.B.HighQC != hadLock && ph == PrecommitVote {
		eff = "+lock"
		r.LockedAt = append(r.LockedAt, VOf(r.B.HighQC.Header))
	}
	if ph == CommitProcess && r.B.Phase == CommitProcess {
		// the commit goroutine calls SelfSendBlock; wait for it (real time, a few ms)
		select {
		case <-r.C.commitCh:
		case <-time.After(20 * time.Second):
			panic("bftsim: commit goroutine did not report")
		}
		if r.Committed != nil {
			eff = "+COMMIT:" + short(r.Committed.BlockHash)
		} else if r.Byz {
			// a Byzantine validator does not leave the height because its engine saw a COMMIT: it moves on to the next round
			r.B.Phase = Pacemaker
			eff = "+byz-stays"
		} else {
			r.Stuck = true
			eff = "+gate-refused"
		}
	} else if r.B.Phase == Pacemaker {
		eff += "!ri"
	}
	s.logf("T%d(%d.%d.%s%s)", i, rh, rd, phaseShort[ph], eff)
	return s.Pool[before:]
}

// refPacemaker recomputes what BFT.Pacemaker() documents: the replica moves to its round+1, or - if higher - to the highest
// round R such that the validators whose last pacemaker message names a round >= R hold at least ceil(T/3) of the power.
func (s *Sim) refPacemaker(r *Replica) uint64 {
	type pm struct {
		round uint64
		power uint64
	}
	var l []pm
	for _, m := range r.B.PacemakerMessages {
		if m == nil || m.Qc == nil || m.Qc.Header == nil || m.Signature == nil {
			continue
		}
		if i := s.IdxOf(m.Signature.PublicKey); i >= 0 {
			l = append(l, pm{m.Qc.Header.Round, s.Cfg.Power[i]})
		}
	}
	sort.Slice(l, func(a, b int) bool { return l[a].round > l[b].round })
	need := s.Total / 3
	if s.Total%3 != 0 {
		need++
	}
	want := r.B.Round + 1
	var sum uint64
	for _, x := range l {
		sum += x.power
		if sum >= need {
			if x.round > want {
				want = x.round
			}
			break
		}
	}
	return want
}

func (s *Sim) pmDump(r *Replica) string {
	var out []string
	for _, m := range r.B.PacemakerMessages {
		if m != nil && m.Qc != nil && m.Qc.Header != nil && m.Signature != nil {
			out = append(out, fmt.Sprintf("v%d@r%d", s.IdxOf(m.Signature.PublicKey), m.Qc.Header.Round))
		}
	}
	sort.Strings(out)
	return strings.Join(out, ",")
}

// Deliver hands a private copy of pool message id to replica `to`. The error is what HandleMessage said.
func (s *Sim) Deliver(id, to int) error {
	e := s.Pool[id]
	r := s.R[to]
	if s.Halted() || r.Committed != nil || (r.Stuck && e.Kind != "BLOCK") {
		return nil
	}
	if s.delivered == nil {
		s.delivered = map[[2]int]bool{}
	}
	s.delivered[[2]int{id, to}] = true
	s.Step++
	if e.Kind == "BLOCK" {
		ok := r.C.receiveCert(e.Cert, "gossip")
		s.logf("D%d>%d:%v", id, to, ok)
		return nil
	}
	m := new(bft.Message)
	if err := lib.Unmarshal(e.Raw, m); err != nil {
		panic(err)
	}
	err := r.B.HandleMessage(m)
	if err != nil {
		s.logf("D%d>%d:x", id, to)
		return err
	}
	s.logf("D%d>%d", id, to)
	return nil
}

// WasDelivered reports whether pool message id was ever handed to replica `to`.
func (s *Sim) WasDelivered(id, to int) bool { return s.delivered[[2]int{id, to}] }

// DeliverQuiet is Deliver without a log line of its own (callers that log a summary themselves).
func (s *Sim) DeliverQuiet(id, to int) error {
	q := s.quiet
	s.quiet = true
	err := s.Deliver(id, to)
	s.quiet = q
	return err
}

// Drop only records that the adversary decided never to deliver id to `to` (a message in the pool that is not
// delivered is simply delayed for ever).
func (s *Sim) Drop(id, to int) { s.logf("X%d>%d", id, to) }

// Duplicate delivers a message a second time.
func (s *Sim) Duplicate(id, to int) error {
	s.logf("dup")
	return s.Deliver(id, to)
}

// RootBump is the committee-preserving root-chain update reaching replica i: its root height advances and the
// engine is reset keeping locks, exactly as the NEW_COMMITTEE branch of BFT.Start does.
func (s *Sim) RootBump(i int) {
	r := s.R[i]
	if r.Committed != nil || s.Halted() {
		return
	}
	s.Step++
	r.C.rootH++
	r.Stuck = false
	if s.Stats.FullCerts > 0 {
		s.Stats.BumpAfterCert++
	}
	s.Stats.Resets++
	r.B.NewHeight(true)
	s.logf("BUMP%d->%d", i, r.C.rootH)
}

// RootBumpAll bumps every replica that is still in the height (in index order).
func (s *Sim) RootBumpAll() {
	for i := range s.R {
		s.RootBump(i)
	}
}

// DupReset repeats the reset for the SAME root height (duplicate root-chain notification) - a separate, labelled
// action: it restarts round 0 inside a view the replica has already been in.
func (s *Sim) DupReset(i int) {
	r := s.R[i]
	if r.Committed != nil || s.Halted() {
		return
	}
	s.Step++
	r.Stuck = false
	r.B.NewHeight(true)
	s.logf("DUPRESET%d@%d", i, r.C.rootH)
}

// MaxRoot is the highest root height any replica has seen.
func (s *Sim) MaxRoot() (m uint64) {
	for _, r := range s.R {
		if r.C.rootH > m {
			m = r.C.rootH
		}
	}
	return
}

// ---------------------------------------------------------------------------------------------------------------
// network pool

func viewOf(m *bft.Message) (kind string, v V) {
	switch {
	case m.IsPacemakerMessage():
		return "PM", VOf(m.Qc.Header)
	case m.IsReplicaMessage():
		return phaseShort[m.Qc.Header.Phase], VOf(m.Qc.Header)
	case m.IsProposerMessage():
		return phaseShort[m.Header.Phase], VOf(m.Header)
	}
	return "?", V{}
}

// add puts a signed message on the network.
func (s *Sim) add(from int, to []int, m *bft.Message, crafted bool) *Env {
	raw, err := lib.Marshal(m)
	if err != nil {
		panic(err)
	}
	cp := new(bft.Message)
	if err = lib.Unmarshal(raw, cp); err != nil {
		panic(err)
	}
	kind, v := viewOf(cp)
	e := &Env{ID: len(s.Pool), From: from, To: to, Raw: raw, Msg: cp, Kind: kind, View: v, Crafted: crafted, SentAt: s.Step}
	s.Pool = append(s.Pool, e)
	if kind == "PR" && cp.Qc != nil && cp.Qc.Block != nil {
		h := hex.EncodeToString(cp.Qc.BlockHash)
		if _, ok := s.Proposed[h]; !ok {
			s.Proposed[h] = s.Step
		}
	}
	if cp.IsReplicaMessage() {
		s.recordSig(from, cp.Qc, cp.Signature.Signature)
		if cp.Qc.Header.Phase == ProposeVote {
			s.Stats.VotedBlocks[string(cp.Qc.BlockHash)] = true
			if h := s.R[from].B.HighQC; !crafted && !s.R[from].Byz && h != nil && !bytes.Equal(h.BlockHash, cp.Qc.BlockHash) {
				s.Stats.Unlocks++
			}
		}
	}
	if (kind == "PC" || kind == "CM") && cp.Qc != nil && cp.Qc.Signature != nil && len(cp.Qc.BlockHash) > 0 &&
		s.BitmapPower(cp.Qc.Signature.Bitmap).Cmp(s.MinMaj()) >= 0 {
		s.Stats.FullCerts++
	}
	tag := ""
	if crafted {
		tag = "*"
	}
	extra := ""
	if cp.Qc != nil && len(cp.Qc.BlockHash) > 0 {
		extra = ":" + short(cp.Qc.BlockHash)
	} else if cp.Qc != nil && len(cp.Qc.ProposerKey) > 0 && kind == "ELV" {
		extra = fmt.Sprintf(":p%d", s.IdxOf(cp.Qc.ProposerKey))
	}
	if cp.HighQc != nil {
		extra += fmt.Sprintf("+hqc(%d.%d:%s)", cp.HighQc.Header.RootHeight, cp.HighQc.Header.Round, short(cp.HighQc.BlockHash))
	}
	s.logf("[m%d%s %d:%s@%d.%d%s]", e.ID, tag, from, kind, v.RootHeight, v.Round, extra)
	return e
}

func (s *Sim) addBlock(from int, qc *lib.QuorumCertificate) *Env {
	var to []int
	for i := range s.R {
		if i != from {
			to = append(to, i)
		}
	}
	e := &Env{ID: len(s.Pool), From: from, To: to, Kind: "BLOCK", Cert: cloneQC(qc), View: VOf(qc.Header), SentAt: s.Step}
	s.Pool = append(s.Pool, e)
	s.logf("[m%d %d:BLOCK:%s]", e.ID, from, short(qc.BlockHash))
	return e
}

// InjectBlock lets the adversary gossip any certificate as a block message (what a Byzantine peer can send on the block topic).
func (s *Sim) InjectBlock(from int, qc *lib.QuorumCertificate) *Env {
	e := s.addBlock(from, qc)
	e.Crafted = true
	return e
}

func cloneQC(qc *lib.QuorumCertificate) *lib.QuorumCertificate {
	if qc == nil {
		return nil
	}
	bz, err := lib.Marshal(qc)
	if err != nil {
		panic(err)
	}
	out := new(lib.QuorumCertificate)
	if err = lib.Unmarshal(bz, out); err != nil {
		panic(err)
	}
	return out
}

// CloneQC returns a deep copy through the wire encoding.
func CloneQC(qc *lib.QuorumCertificate) *lib.QuorumCertificate { return cloneQC(qc) }

func short(b []byte) string {
	if len(b) < 3 {
		return hex.EncodeToString(b)
	}
	return hex.EncodeToString(b[:3])
}

// Short renders a hash prefix.
func Short(b []byte) string { return short(b) }

func viewKey(signer int, v *lib.View) string {
	return fmt.Sprintf("%d|%d/%d/%d/%d", signer, v.Height, v.RootHeight, v.Round, v.Phase)
}

// recordSig registers an aggregable vote signature (ground truth for invariant (d) and for C14).
func (s *Sim) recordSig(signer int, qc *lib.QuorumCertificate, sig []byte) {
	pay := &lib.QuorumCertificate{Header: qc.Header, BlockHash: qc.BlockHash, ResultsHash: qc.ResultsHash, ProposerKey: qc.ProposerKey}
	p := crypto.HashString(pay.SignBytes())
	k := viewKey(signer, qc.Header)
	m := s.sigIndex[k]
	if m == nil {
		m = map[string]*SigRec{}
		s.sigIndex[k] = m
	}
	if _, ok := m[p]; ok {
		return
	}
	rec := &SigRec{Signer: signer, View: VOf(qc.Header), Payload: p, QC: cloneQC(pay), Sig: append([]byte(nil), sig...)}
	m[p] = rec
	s.Sigs = append(s.Sigs, rec)
	if len(m) > 1 && !s.R[signer].Byz {
		s.DoubleSig = append(s.DoubleSig, fmt.Sprintf("replica %d signed %d payloads in view (h%d root%d r%d %s)", signer, len(m), qc.Header.Height, qc.Header.RootHeight, qc.Header.Round, phaseShort[qc.Header.Phase]))
	}
}

// SignedPayloads returns how many different payloads `signer` signed in the view.
func (s *Sim) SignedPayloads(signer int, v *lib.View) int { return len(s.sigIndex[viewKey(signer, v)]) }

// HasSigned reports whether signer really signed exactly this vote payload.
func (s *Sim) HasSigned(signer int, qc *lib.QuorumCertificate) bool {
	pay := &lib.QuorumCertificate{Header: qc.Header, BlockHash: qc.BlockHash, ResultsHash: qc.ResultsHash, ProposerKey: qc.ProposerKey}
	_, ok := s.sigIndex[viewKey(signer, qc.Header)][crypto.HashString(pay.SignBytes())]
	return ok
}

// BitmapSigners decodes a signer bitmap independently of lib (bit i = byte i/8, bit i%8).
func (s *Sim) BitmapSigners(bm []byte) (out []int) {
	for i := 0; i < s.N; i++ {
		if i/8 < len(bm) && bm[i/8]&(1<<(uint(i)%8)) != 0 {
			out = append(out, i)
		}
	}
	return
}

// BitmapPower recounts the power behind a bitmap with big integers.
func (s *Sim) BitmapPower(bm []byte) *big.Int {
	t := new(big.Int)
	for _, i := range s.BitmapSigners(bm) {
		t.Add(t, new(big.Int).SetUint64(s.Cfg.Power[i]))
	}
	return t
}

// Pending lists the pool ids that were never delivered to `to` although addressed to it - bookkeeping is the
// caller's; this helper only filters by recipient and id range.
func (s *Sim) AddressedTo(to, fromID int) (out []int) {
	for _, e := range s.Pool[fromID:] {
		for _, t := range e.To {
			if t == to {
				out = append(out, e.ID)
			}
		}
	}
	return
}

// ---------------------------------------------------------------------------------------------------------------
// leader prediction

// Cand is one sortition candidate of a view.
type Cand struct {
	Idx int
	Out []byte
}

func (s *Sim) sortData(root, round uint64, power uint64) *lib.SortitionData {
	return &lib.SortitionData{LastProposerAddresses: s.LastProp.Addresses, RootHeight: root, Height: s.Height, Round: round,
		TotalValidators: s.VS.NumValidators, TotalPower: s.VS.TotalPower, VotingPower: power}
}

// Candidates runs the real sortition for every key (cached per view).
func (s *Sim) Candidates(root, round uint64) (out []Cand) {
	if s.candCache == nil {
		s.candCache = map[[2]uint64][]Cand{}
	}
	if c, ok := s.candCache[[2]uint64{root, round}]; ok {
		return c
	}
	defer func() { s.candCache[[2]uint64{root, round}] = out }()
	for _, r := range s.R {
		o, _, is := bft.Sortition(&bft.SortitionParams{SortitionData: s.sortData(root, round, s.Cfg.Power[r.Idx]), PrivateKey: r.Key})
		if is {
			out = append(out, Cand{r.Idx, o})
		}
	}
	return
}

// LeaderGiven is whom a replica votes for when it has seen exactly the candidates in `visible`.
func (s *Sim) LeaderGiven(root, round uint64, visible []Cand) int {
	var cs []bft.VRFCandidate
	for _, c := range visible {
		cs = append(cs, bft.VRFCandidate{PublicKey: s.R[c.Idx].Key.PublicKey(), Out: c.Out})
	}
	return s.IdxOf(bft.SelectProposerFromCandidates(cs, s.sortData(root, round, 0), s.VS.ValidatorSet))
}

// PredictedLeader is the leader of (root, round) when every candidate's election message reaches everybody.
func (s *Sim) PredictedLeader(root, round uint64) int {
	return s.LeaderGiven(root, round, s.Candidates(root, round))
}

// ---------------------------------------------------------------------------------------------------------------
// adversary toolkit (only Byzantine keys sign here)

// HeaderView builds a view of this height.
func (s *Sim) HeaderView(root, round uint64, ph lib.Phase) *lib.View {
	return &lib.View{NetworkId: NetworkID, ChainId: ChainID, Height: s.Height, RootHeight: root, Round: round, Phase: ph}
}

func (s *Sim) mustByz(i int) {
	if !s.R[i].Byz {
		panic(fmt.Sprintf("bftsim: validator %d is correct, the adversary cannot sign for it", i))
	}
}

// CraftVote signs a replica vote with Byzantine key i and puts it on the network addressed to `to`.
func (s *Sim) CraftVote(i int, qc *lib.QuorumCertificate, highQc *lib.QuorumCertificate, dse []*bft.DoubleSignEvidence, to []int) *Env {
	s.mustByz(i)
	m := &bft.Message{Qc: cloneQC(qc), HighQc: cloneQC(highQc), LastDoubleSignEvidence: dse}
	m.Qc.Signature = nil
	if err := m.Sign(s.R[i].Key); err != nil {
		panic(err)
	}
	return s.add(i, to, m, true)
}

// CraftVoteBuild is CraftVote with a chosen RcBuildHeight (the field is not covered by the vote's signature bytes).
func (s *Sim) CraftVoteBuild(i int, qc *lib.QuorumCertificate, highQc *lib.QuorumCertificate, rcBuild uint64, to []int) *Env {
	s.mustByz(i)
	m := &bft.Message{Qc: cloneQC(qc), HighQc: cloneQC(highQc), RcBuildHeight: rcBuild}
	m.Qc.Signature = nil
	if err := m.Sign(s.R[i].Key); err != nil {
		panic(err)
	}
	return s.add(i, to, m, true)
}

// CraftPacemaker signs a pacemaker (round-interrupt view) message with Byzantine key i.
func (s *Sim) CraftPacemaker(i int, root, round uint64, to []int) *Env {
	s.mustByz(i)
	m := &bft.Message{Qc: &lib.QuorumCertificate{Header: s.HeaderView(root, round, RoundInterrupt)}}
	if err := m.Sign(s.R[i].Key); err != nil {
		panic(err)
	}
	return s.add(i, to, m, true)
}

// CraftLeader signs a leader message with Byzantine key i.
func (s *Sim) CraftLeader(i int, header *lib.View, qc, highQc *lib.QuorumCertificate, dse []*bft.DoubleSignEvidence, rcBuild uint64, to []int) *Env {
	s.mustByz(i)
	m := &bft.Message{Header: header, Qc: cloneQC(qc), HighQc: cloneQC(highQc), LastDoubleSignEvidence: dse, RcBuildHeight: rcBuild}
	if err := m.Sign(s.R[i].Key); err != nil {
		panic(err)
	}
	return s.add(i, to, m, true)
}

// Resend puts an existing envelope's bytes on the network again under a new id (pure replay by anybody).
func (s *Sim) Resend(id int, to []int) *Env {
	old := s.Pool[id]
	if old.Kind == "BLOCK" {
		e := s.addBlock(old.From, old.Cert)
		e.To = to
		return e
	}
	m := new(bft.Message)
	if err := lib.Unmarshal(old.Raw, m); err != nil {
		panic(err)
	}
	return s.add(old.From, to, m, true)
}

// Aggregate builds an aggregate signature over the sign bytes of `payload` from individual vote signatures
// (index -> signature). Anybody can do this with signatures seen on the network.
func (s *Sim) Aggregate(sigs map[int][]byte) *lib.AggregateSignature {
	mk := s.VS.MultiKey.Copy()
	idx := make([]int, 0, len(sigs))
	for i := range sigs {
		idx = append(idx, i)
	}
	sort.Ints(idx)
	for _, i := range idx {
		if err := mk.AddSigner(sigs[i], i); err != nil {
			panic(err)
		}
	}
	agg, err := mk.AggregateSignatures()
	if err != nil {
		panic(err)
	}
	return &lib.AggregateSignature{Signature: agg, Bitmap: mk.Bitmap()}
}

// VotesFor collects, from everything ever sent, the individual signatures on exactly this vote payload.
func (s *Sim) VotesFor(qc *lib.QuorumCertificate) map[int][]byte {
	pay := &lib.QuorumCertificate{Header: qc.Header, BlockHash: qc.BlockHash, ResultsHash: qc.ResultsHash, ProposerKey: qc.ProposerKey}
	p := crypto.HashString(pay.SignBytes())
	out := map[int][]byte{}
	for _, r := range s.Sigs {
		if r.Payload == p {
			out[r.Signer] = r.Sig
		}
	}
	return out
}

// ByzSign signs a vote payload with a Byzantine key without sending anything (the signature joins the world's pool).
func (s *Sim) ByzSign(i int, qc *lib.QuorumCertificate) []byte {
	s.mustByz(i)
	pay := &lib.QuorumCertificate{Header: qc.Header, BlockHash: qc.BlockHash, ResultsHash: qc.ResultsHash, ProposerKey: qc.ProposerKey}
	sig := s.R[i].Key.Sign(pay.SignBytes())
	s.recordSig(i, pay, sig)
	return sig
}

// MakeBlock builds a well-formed block of this height; tag makes it unique.
func (s *Sim) MakeBlock(proposer int, tag string) (blk []byte, hash []byte) {
	h := &lib.BlockHeader{
		Height: s.Height, NetworkId: uint32(NetworkID), Time: 1_700_000_000_000_000 + uint64(len(tag)),
		LastBlockHash: crypto.Hash([]byte(fmt.Sprintf("last/%d", s.Height-1))), StateRoot: crypto.Hash([]byte("state/" + tag)),
		TransactionRoot: crypto.Hash([]byte("tx/" + tag)), ValidatorRoot: crypto.Hash([]byte("vals")), NextValidatorRoot: crypto.Hash([]byte("vals")),
		ProposerAddress: s.R[proposer].Key.PublicKey().Address().Bytes(),
	}
	if s.Height > 1 {
		h.LastQuorumCertificate = &lib.QuorumCertificate{
			Header:    &lib.View{NetworkId: NetworkID, ChainId: ChainID, Height: s.Height - 1, RootHeight: s.Cfg.RootHeight, Phase: PrecommitVote},
			BlockHash: crypto.Hash([]byte("lastblock")), ResultsHash: crypto.Hash([]byte("lastresults")),
			Signature: &lib.AggregateSignature{Signature: make([]byte, crypto.BLS12381SignatureSize), Bitmap: make([]byte, (s.N+7)/8)},
		}
	}
	if _, err := h.SetHash(); err != nil {
		panic(err)
	}
	bz, err := lib.Marshal(&lib.Block{BlockHeader: h})
	if err != nil {
		panic(err)
	}
	return bz, h.Hash
}

// LotteryAddr models the part of the certificate results that is a function of the root-chain height the block was
// built at (the real controller asks the root chain at rcBuildHeight for the lottery winner, orders and the DEX batch).
func LotteryAddr(rcBuild uint64) []byte {
	return crypto.Hash([]byte(fmt.Sprintf("lottery-winner@root%d", rcBuild)))[:20]
}

// MakeResults builds well-formed certificate results for a block built at root height rcBuild.
func (s *Sim) MakeResults(proposer int, slash []*lib.DoubleSigner, rcBuild uint64) *lib.CertificateResult {
	return &lib.CertificateResult{
		RewardRecipients: &lib.RewardRecipients{PaymentPercents: []*lib.PaymentPercents{
			{Address: s.R[proposer].Key.PublicKey().Address().Bytes(), ChainId: ChainID, Percent: 90},
			{Address: LotteryAddr(rcBuild), ChainId: ChainID, Percent: 10}}},
		SlashRecipients: &lib.SlashRecipients{DoubleSigners: slash},
	}
}

// MakeResultsVar builds well-formed certificate results that differ from MakeResults (and from each other per tag):
// the reward is split between the proposer and a tag-derived address.
func (s *Sim) MakeResultsVar(proposer int, tag string, rcBuild uint64) *lib.CertificateResult {
	other := crypto.Hash([]byte("results/" + tag))[:20]
	share := uint64(1 + int(other[0])%40)
	return &lib.CertificateResult{
		RewardRecipients: &lib.RewardRecipients{PaymentPercents: []*lib.PaymentPercents{
			{Address: s.R[proposer].Key.PublicKey().Address().Bytes(), ChainId: ChainID, Percent: 90 - share},
			{Address: other, ChainId: ChainID, Percent: share},
			{Address: LotteryAddr(rcBuild), ChainId: ChainID, Percent: 10}}},
		SlashRecipients: &lib.SlashRecipients{},
	}
}

// ---------------------------------------------------------------------------------------------------------------
// mock controller

type ctl struct {
	sync.Mutex
	s        *Sim
	i        int
	rootH    uint64
	syncing  *atomic.Bool
	selfQ    [][]byte
	commitCh chan struct{}
	// ValidDoubleSigner can be overridden by a test (default: everybody is a valid double signer)
	InvalidDS map[string]bool
}

var _ bft.Controller = (*ctl)(nil)

func (c *ctl) r() *Replica { return c.s.R[c.i] }

// RootHeight exposes the replica's root height.
func (r *Replica) RootHeight() uint64 { return r.C.rootH }

// SetRootHeight sets the harness variable without resetting the engine (used to start replicas at a root height).
func (r *Replica) SetRootHeight(h uint64) { r.C.rootH = h }

func (c *ctl) ChainHeight() uint64     { return c.s.Height }
func (c *ctl) RootChainHeight() uint64 { return c.rootH }

func (c *ctl) ProduceProposal(be *bft.ByzantineEvidence, _ *crypto.VDF) (uint64, []byte, *lib.CertificateResult, lib.ErrorI) {
	s := c.s
	s.blockCtr[c.i]++
	blk, _ := s.MakeBlock(c.i, fmt.Sprintf("p%d/n%d/root%d", c.i, s.blockCtr[c.i], c.rootH))
	var ds []*lib.DoubleSigner
	if be != nil {
		// Controller.CalculateSlashRecipients
		got, err := c.r().B.ProcessDSE(be.DSE.Evidence...)
		if err == nil {
			ds = got
		}
	}
	return c.rootH, blk, s.MakeResults(c.i, ds, c.rootH), nil
}

func (c *ctl) ValidateProposal(rcBuildHeight uint64, qc *lib.QuorumCertificate, evidence *bft.ByzantineEvidence) (*lib.BlockResult, lib.ErrorI) {
	block, err := qc.CheckProposalBasic(c.s.Height, NetworkID, ChainID)
	if err != nil {
		return nil, err
	}
	if err = qc.Results.CheckBasic(); err != nil {
		return nil, err
	}
	if err = c.r().B.ValidateByzantineEvidence(qc.Results.SlashRecipients, evidence); err != nil {
		return nil, err
	}
	// Controller.ValidateProposal recomputes the results from the block, the evidence and the root-chain data AT rcBuildHeight and
	// demands equality: the part that depends on the build height must be the one of exactly this build height
	lottery := false
	for _, pp := range qc.Results.RewardRecipients.PaymentPercents {
		lottery = lottery || bytes.Equal(pp.Address, LotteryAddr(rcBuildHeight))
	}
	if !lottery {
		return nil, lib.ErrMismatchEvidenceAndHeader()
	}
	// Controller.ValidateProposal recomputes the results and demands equality (here: the slash list)
	var want []*lib.DoubleSigner
	if evidence != nil {
		if got, e := c.r().B.ProcessDSE(evidence.DSE.Evidence...); e == nil {
			want = got
		}
	}
	have := []*lib.DoubleSigner(nil)
	if qc.Results.SlashRecipients != nil {
		have = qc.Results.SlashRecipients.DoubleSigners
	}
	if !(&lib.SlashRecipients{DoubleSigners: have}).Equals(&lib.SlashRecipients{DoubleSigners: want}) {
		return nil, lib.ErrMismatchEvidenceAndHeader()
	}
	return &lib.BlockResult{BlockHeader: block.BlockHeader}, nil
}

func (c *ctl) LoadCertificate(uint64) (*lib.QuorumCertificate, lib.ErrorI) { return nil, nil }
func (c *ctl) CommitCertificate(*lib.QuorumCertificate, *lib.Block, *lib.BlockResult, uint64) lib.ErrorI {
	return nil
}
func (c *ctl) GossipBlock(*lib.QuorumCertificate, []byte, uint64) {}
func (c *ctl) GossipConsensus(*bft.Message, []byte)               {}

// certGate mirrors Controller.HandlePeerBlock up to CommitCertificate.
func (c *ctl) certGate(qc *lib.QuorumCertificate) lib.ErrorI {
	if err := qc.CheckBasic(); err != nil {
		return err
	}
	v, err := c.LoadCommittee(RootChain, qc.Header.RootHeight)
	if err != nil {
		return err
	}
	partial, err := qc.Check(v, c.LoadMaxBlockSize(), &lib.View{NetworkId: NetworkID, ChainId: ChainID}, false)
	if err != nil {
		return err
	}
	if partial {
		return lib.ErrNoMaj23()
	}
	_, err = qc.CheckProposalBasic(c.s.Height, NetworkID, ChainID)
	if err == nil && qc.Header.Phase != lib.Phase_PRECOMMIT_VOTE {
		return lib.ErrWrongPhase()
	}
	return err
}

func (c *ctl) receiveCert(qc *lib.QuorumCertificate, via string) bool {
	s := c.s
	qc = cloneQC(qc)
	err := c.certGate(qc)
	s.mu.Lock()
	defer s.mu.Unlock()
	if err != nil {
		s.GateFails = append(s.GateFails, fmt.Sprintf("replica %d (%s): %s", c.i, via, err.Error()))
		return false
	}
	r := c.r()
	if r.Committed != nil || r.Byz {
		return false
	}
	if via == "gossip" {
		s.Stats.GossipCommits++
	}
	rec := &CommitRec{Replica: c.i, Height: qc.Header.Height, BlockHash: qc.BlockHash, ResultsHash: qc.ResultsHash, QC: qc, Via: via, Step: s.Step}
	r.Committed = rec
	s.Commits = append(s.Commits, rec)
	if via == "gossip" {
		// Controller.ListenForBlock re-gossips a certificate it accepted from a peer (GossipBlock after HandlePeerBlock): the
		// replica's own, owed, copy exists on the network from now on - whoever the first sender was
		s.addBlock(c.i, qc)
	}
	return true
}

func (c *ctl) SelfSendBlock(qc *lib.QuorumCertificate, _ uint64) {
	if c.receiveCert(qc, "bft") {
		c.s.mu.Lock()
		c.s.addBlock(c.i, qc) // Controller.ListenForBlock gossips the certificate after committing it
		c.s.mu.Unlock()
	}
	c.commitCh <- struct{}{}
}

func (c *ctl) sign(msg lib.Signable) *bft.Message {
	m, ok := msg.(*bft.Message)
	if !ok {
		panic("bftsim: unexpected signable")
	}
	if err := m.Sign(c.r().Key); err != nil {
		panic(err)
	}
	return m
}

func (c *ctl) queueSelf(m *bft.Message) {
	raw, err := lib.Marshal(m)
	if err != nil {
		panic(err)
	}
	c.selfQ = append(c.selfQ, raw)
}

// flushSelf routes the copies-to-self (P2P.SelfSend) once the phase handler has returned.
func (c *ctl) flushSelf() {
	for len(c.selfQ) > 0 {
		raw := c.selfQ[0]
		c.selfQ = c.selfQ[1:]
		m := new(bft.Message)
		if err := lib.Unmarshal(raw, m); err != nil {
			panic(err)
		}
		_ = c.r().B.HandleMessage(m)
	}
}

func (c *ctl) SendToReplicas(_ lib.ValidatorSet, msg lib.Signable) {
	m := c.sign(msg)
	var to []int
	for i := range c.s.R {
		if i != c.i {
			to = append(to, i)
		}
	}
	c.s.add(c.i, to, m, false)
	c.queueSelf(m)
}

func (c *ctl) SendToProposer(msg lib.Signable) {
	m := c.sign(msg)
	b := c.r().B
	if b.SelfIsProposer() {
		c.s.add(c.i, nil, m, false)
		c.queueSelf(m)
		return
	}
	p := c.s.IdxOf(b.ProposerKey)
	if p < 0 {
		c.s.add(c.i, nil, m, false)
		return
	}
	c.s.add(c.i, []int{p}, m, false)
}

func (c *ctl) LoadRootChainId(uint64) uint64 { return RootChain }
func (c *ctl) LoadIsOwnRoot() bool           { return false }
func (c *ctl) Syncing() *atomic.Bool         { return c.syncing }
func (c *ctl) ResetFSM()                     {}

func (c *ctl) SendCertificateResultsTx(*lib.QuorumCertificate) {}
func (c *ctl) LoadCommittee(_, _ uint64) (lib.ValidatorSet, lib.ErrorI) {
	return c.s.VS, nil
}
func (c *ctl) LoadCommitteeData() (*lib.CommitteeData, lib.ErrorI) {
	return &lib.CommitteeData{ChainId: ChainID, LastRootHeightUpdated: c.s.Cfg.LastRootHeightUpdated, LastChainHeightUpdated: c.s.Height - 1}, nil
}
func (c *ctl) LoadLastProposers(uint64) (*lib.Proposers, lib.ErrorI) { return c.s.LastProp, nil }
func (c *ctl) LoadMinimumEvidenceHeight(_, _ uint64) (*uint64, lib.ErrorI) {
	h := c.s.Cfg.MinEvidenceHeight
	return &h, nil
}
func (c *ctl) IsValidDoubleSigner(_, _ uint64, address []byte) bool {
	return !c.InvalidDS[string(address)]
}
func (c *ctl) LoadMaxBlockSize() int { return 1 << 20 }
