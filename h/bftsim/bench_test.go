package bftsim

import "testing"

func BenchmarkRound(b *testing.B) {
	for n := 0; n < b.N; n++ {
		s := New(Config{Power: []uint64{10, 10, 10, 10}, Byz: []bool{false, false, false, true}, Height: 1, RootHeight: uint64(5 + n), Seed: uint64(n)})
		for step := 0; step < 8; step++ {
			var sent []*Env
			for i := range s.R {
				sent = append(sent, s.FireTimer(i)...)
			}
			for _, e := range sent {
				for _, to := range e.To {
					_ = s.Deliver(e.ID, to)
				}
			}
		}
		s.Close()
	}
}
