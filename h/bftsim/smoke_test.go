package bftsim

import (
	"testing"
	"time"
)

func TestSmokeCommit(t *testing.T) {
	s := New(Config{Power: []uint64{10, 10, 10, 10}, Byz: []bool{false, false, false, true}, Height: 1, RootHeight: 5, Seed: 1})
	defer s.Close()
	t0 := time.Now()
	for step := 0; step < 8; step++ {
		var sent []*Env
		for i := range s.R {
			sent = append(sent, s.FireTimer(i)...)
		}
		for _, e := range sent {
			for _, to := range e.To {
				_ = s.Deliver(e.ID, to)
			}
		}
	}
	t.Logf("round took %v; commits=%d leader=%d", time.Since(t0), len(s.Commits), s.PredictedLeader(5, 0))
	t.Log(s.Descriptor())
	if len(s.Commits) != 4 {
		t.Fatalf("expected 4 commits, got %d; gate=%v", len(s.Commits), s.GateFails)
	}
}
