package bftsim

import (
	"github.com/canopy-network/canopy/lib"
)

// ByzLeader drives one or several proposals of a Byzantine leader D through a round with crafted messages:
// proposal k goes to Targets[k]; the votes that come back (plus the signatures of the Byzantine CoSigners, who
// sign every proposal) are aggregated into whatever certificate they make - full or partial - and sent on as
// PRECOMMIT / COMMIT to the same targets. D's engine supplies the election certificate (its own PROPOSE message);
// everything the engine itself says after the election vote is to be suppressed by the round's Route.
type ByzLeader struct {
	S                    *Sim
	D                    int
	Root, Round          uint64
	Props                []*Proposal
	HighQcs              []*lib.QuorumCertificate // per proposal, may be nil
	Targets              [][]int
	CoSigners            []int
	Justify              *lib.QuorumCertificate // election certificate to use; nil = take the engine's
	StopBefore           lib.Phase              // 0 = go all the way; Precommit = withhold PRECOMMIT; Commit = withhold COMMIT
	PrecommitTo          [][]int                // optional narrower targets for PRECOMMIT
	CommitTo             [][]int                // optional narrower targets for COMMIT
	WrongPhaseCM         bool                   // COMMIT carries the PROPOSE_VOTE certificate instead of the PRECOMMIT_VOTE one
	ElectionCertAsHighQc bool                   // HighQc of every proposal = the election certificate of this round with the proposal's hashes
	NoPartialCM          bool                   // do not send COMMIT when the PRECOMMIT_VOTE certificate is below +2/3 (input class of an open finding)
	SkippedCM            int
	Sent                 []*Env
	PCCerts              []*lib.QuorumCertificate // the PROPOSE_VOTE certificates that were formed (index = proposal)
	CMCerts              []*lib.QuorumCertificate
	proposed             bool
	pcDone               bool
	cmDone               bool
}

func hasKind(sent []*Env, kind string, root, round uint64) bool {
	for _, e := range sent {
		if e.Kind == kind && e.View.RootHeight == root && e.View.Round == round {
			return true
		}
	}
	return false
}

func (b *ByzLeader) deliver(e *Env) {
	b.Sent = append(b.Sent, e)
	for _, to := range e.To {
		_ = b.S.Deliver(e.ID, to)
	}
}

// SuppressEngine is the Route filter for D's own engine: after the election vote it says nothing.
func (b *ByzLeader) SuppressEngine(e *Env) bool {
	return e.From == b.D && !e.Crafted && (e.Kind == "PR" || e.Kind == "PC" || e.Kind == "CM" || e.Kind == "PRV" || e.Kind == "PCV")
}

// After is the RoundPolicy.After hook.
func (b *ByzLeader) After(step int, sent []*Env) {
	s := b.S
	if !b.proposed {
		just := b.Justify
		if just == nil {
			// D's engine supplies the election certificate in its own PROPOSE message
			if e := s.LeaderMsg(b.D, b.Root, b.Round, "PR"); e != nil && !e.Crafted {
				just = e.Msg.Qc
			}
		} else if step < 2 {
			just = nil // with a foreign certificate the adversary still waits for the PROPOSE moment of the round
		}
		if just != nil {
			b.proposed = true
			b.PCCerts = make([]*lib.QuorumCertificate, len(b.Props))
			b.CMCerts = make([]*lib.QuorumCertificate, len(b.Props))
			for k, p := range b.Props {
				var hq *lib.QuorumCertificate
				if k < len(b.HighQcs) {
					hq = b.HighQcs[k]
				}
				if b.ElectionCertAsHighQc {
					// the leader's own +2/3 ELECTION_VOTE certificate of this round, dressed up as a lock certificate for its
					// proposal: the election sign bytes cover only (view, proposer key), so the hashes can be filled in freely
					hq = &lib.QuorumCertificate{Header: just.Header, ProposerKey: just.ProposerKey, Signature: just.Signature,
						BlockHash: p.BlockHash, ResultsHash: p.ResultsHash}
				}
				b.deliver(s.CraftPropose(b.D, b.Root, b.Round, just, p, hq, nil, b.Targets[k]))
			}
		}
		return
	}
	if !b.pcDone && hasKind(sent, "PRV", b.Root, b.Round) {
		b.pcDone = true
		for k, p := range b.Props {
			cert, ok := s.CraftCert(s.VotePayload(b.Root, b.Round, ProposeVote, p.BlockHash, p.ResultsHash, b.D), b.CoSigners)
			if !ok {
				continue
			}
			b.PCCerts[k] = cert
			if b.StopBefore == Precommit {
				continue
			}
			to := b.Targets[k]
			if k < len(b.PrecommitTo) && b.PrecommitTo[k] != nil {
				to = b.PrecommitTo[k]
			}
			b.deliver(s.CraftJustified(b.D, b.Root, b.Round, Precommit, cert, p.RcBuild, to))
		}
		return
	}
	if b.pcDone && !b.cmDone && b.StopBefore != Precommit && hasKind(sent, "PCV", b.Root, b.Round) {
		b.cmDone = true
		for k, p := range b.Props {
			cert, ok := s.CraftCert(s.VotePayload(b.Root, b.Round, PrecommitVote, p.BlockHash, p.ResultsHash, b.D), b.CoSigners)
			if !ok {
				continue
			}
			b.CMCerts[k] = cert
			if b.StopBefore == Commit {
				continue
			}
			to := b.Targets[k]
			if k < len(b.CommitTo) && b.CommitTo[k] != nil {
				to = b.CommitTo[k]
			}
			if b.WrongPhaseCM && b.PCCerts[k] != nil {
				cert = b.PCCerts[k]
			}
			if b.NoPartialCM && cert.Header.Phase == PrecommitVote && s.CertPower(cert) < s.VS.MinimumMaj23 {
				b.SkippedCM++
				continue
			}
			b.deliver(s.CraftJustified(b.D, b.Root, b.Round, Commit, cert, p.RcBuild, to))
		}
	}
}
