package bftsim

import (
	"fmt"

	"github.com/canopy-network/canopy/bft"
	"github.com/canopy-network/canopy/lib"
)

// RoundPolicy is what the scheduler/adversary does during one lockstep round (every participating replica runs
// one round of its own; a step = "each participating replica's timer fires once, then the network moves").
type RoundPolicy struct {
	// Fire: does replica i's timer fire at this step? (nil = every active replica)
	Fire func(step, i int) bool
	// Order permutes the firing order of a step (nil = index order)
	Order func(step int, ids []int) []int
	// Route: is envelope e delivered to `to` before the next step? (nil = yes). Messages not routed stay in the pool.
	Route func(e *Env, to int) bool
	// After runs after the timers of a step fired and before the network moves; the adversary crafts/injects/bumps here.
	// `sent` are the envelopes the engines produced in this step.
	After func(step int, sent []*Env)
	// AfterRoute runs after the network moved the envelopes of the step (messages the adversary wants to arrive LAST).
	AfterRoute func(step int, sent []*Env)
	// MaxSteps bounds the number of steps (0 = 10).
	MaxSteps int
}

type pos struct {
	root, round uint64
}

// RunRound runs one lockstep round under the policy and returns the envelopes produced by engines.
func (s *Sim) RunRound(p *RoundPolicy) (all []*Env) {
	if p == nil {
		p = &RoundPolicy{}
	}
	start := map[int]pos{}
	for i, r := range s.R {
		start[i] = pos{r.C.rootH, r.B.Round}
	}
	max := p.MaxSteps
	if max == 0 {
		max = 10
	}
	fired := map[int]int{}
	for step := 0; step < max; step++ {
		var ids []int
		for i, r := range s.R {
			if !s.Active(i) {
				continue
			}
			if (pos{r.C.rootH, r.B.Round}) != start[i] {
				continue // already in the next round (or was reset): done for this segment
			}
			if fired[i] > 0 && r.B.Phase == Election {
				continue // wrapped around into the next round
			}
			if p.Fire != nil && !p.Fire(step, i) {
				continue
			}
			ids = append(ids, i)
		}
		if len(ids) == 0 || s.Halted() {
			break
		}
		if p.Order != nil {
			ids = p.Order(step, ids)
		}
		var sent []*Env
		for _, i := range ids {
			fired[i]++
			sent = append(sent, s.FireTimer(i)...)
		}
		all = append(all, sent...)
		if p.After != nil {
			p.After(step, sent)
		}
		for _, e := range sent {
			for _, to := range e.To {
				if p.Route == nil || p.Route(e, to) {
					_ = s.Deliver(e.ID, to)
				}
			}
		}
		if p.AfterRoute != nil {
			p.AfterRoute(step, sent)
		}
	}
	return
}

// ElectionPlan says which candidates' election messages must not reach anybody else so that `want` collects
// +2/3 of the election votes at (root, round), assuming the Byzantine validators vote for `want`.
type ElectionPlan struct {
	Want     int
	Suppress map[int]bool // candidate index -> its ELECTION broadcast is withheld from the others
	OK       bool
	Votes    uint64 // power that will vote for Want (correct voters in `voters` + all Byzantine)
}

// PlanLeader computes how a network adversary steers the election of (root, round) towards `want`.
// `voters` are the correct replicas that will take part in that view.
func (s *Sim) PlanLeader(root, round uint64, want int, voters []int) ElectionPlan {
	cands := s.Candidates(root, round)
	candOf := map[int]*Cand{}
	for k := range cands {
		candOf[cands[k].Idx] = &cands[k]
	}
	try := func(suppress map[int]bool) (uint64, bool) {
		var pow uint64
		for _, v := range s.Byzantine() {
			pow += s.Cfg.Power[v]
		}
		for _, v := range voters {
			if s.R[v].Byz {
				continue
			}
			var vis []Cand
			for _, c := range cands {
				if !suppress[c.Idx] || c.Idx == v {
					vis = append(vis, c)
				}
			}
			if s.LeaderGiven(root, round, vis) == want {
				pow += s.Cfg.Power[v]
			}
		}
		return pow, pow >= s.VS.MinimumMaj23
	}
	// option 1: nothing suppressed
	if pow, ok := try(map[int]bool{}); ok {
		return ElectionPlan{Want: want, Suppress: map[int]bool{}, OK: true, Votes: pow}
	}
	// option 2: everybody but `want` suppressed
	sup := map[int]bool{}
	for _, c := range cands {
		if c.Idx != want {
			sup[c.Idx] = true
		}
	}
	pow, ok := try(sup)
	return ElectionPlan{Want: want, Suppress: sup, OK: ok, Votes: pow}
}

// ElectionVotePayload is the vote a replica signs to elect `leader` in (root, round).
func (s *Sim) ElectionVotePayload(root, round uint64, leader int) *lib.QuorumCertificate {
	return &lib.QuorumCertificate{Header: s.HeaderView(root, round, ElectionVote), ProposerKey: s.R[leader].Pub}
}

// VotePayload is the vote a replica signs for a proposal in a vote phase.
func (s *Sim) VotePayload(root, round uint64, ph lib.Phase, blockHash, resultsHash []byte, leader int) *lib.QuorumCertificate {
	return &lib.QuorumCertificate{Header: s.HeaderView(root, round, ph), BlockHash: blockHash, ResultsHash: resultsHash, ProposerKey: s.R[leader].Pub}
}

// CraftCert aggregates every signature that exists for the payload (optionally adding Byzantine signatures from
// `alsoSign`) into a certificate. ok=false when nobody signed.
func (s *Sim) CraftCert(payload *lib.QuorumCertificate, alsoSign []int) (*lib.QuorumCertificate, bool) {
	for _, i := range alsoSign {
		s.ByzSign(i, payload)
	}
	sigs := s.VotesFor(payload)
	if len(sigs) == 0 {
		return nil, false
	}
	qc := cloneQC(payload)
	qc.Signature = s.Aggregate(sigs)
	return qc, true
}

// CertPower is the power behind a certificate's bitmap (independent recount, uint64 is enough for the sizes used).
func (s *Sim) CertPower(qc *lib.QuorumCertificate) uint64 {
	if qc == nil || qc.Signature == nil {
		return 0
	}
	return s.PowerOf(s.BitmapSigners(qc.Signature.Bitmap))
}

// FindEnv returns the last envelope matching the predicate.
func (s *Sim) FindEnv(f func(*Env) bool) *Env {
	for k := len(s.Pool) - 1; k >= 0; k-- {
		if f(s.Pool[k]) {
			return s.Pool[k]
		}
	}
	return nil
}

// LeaderMsg finds the engine-made (or crafted) leader message of a phase at (root, round) from `from`.
func (s *Sim) LeaderMsg(from int, root, round uint64, kind string) *Env {
	return s.FindEnv(func(e *Env) bool {
		return e.From == from && e.Kind == kind && e.View.RootHeight == root && e.View.Round == round
	})
}

// Proposal is a block with its results as carried by a PROPOSE message.
type Proposal struct {
	Block       []byte
	BlockHash   []byte
	Results     *lib.CertificateResult
	ResultsHash []byte
	RcBuild     uint64
}

// NewProposal lets the adversary make up a well-formed proposal.
func (s *Sim) NewProposal(proposer int, tag string, rcBuild uint64) *Proposal {
	blk, h := s.MakeBlock(proposer, tag)
	res := s.MakeResults(proposer, nil, rcBuild)
	return &Proposal{Block: blk, BlockHash: h, Results: res, ResultsHash: res.Hash(), RcBuild: rcBuild}
}

// WithOtherResults returns a proposal of the SAME block with different certificate results.
func (s *Sim) WithOtherResults(p *Proposal, proposer int, tag string) *Proposal {
	res := s.MakeResultsVar(proposer, tag, p.RcBuild)
	return &Proposal{Block: p.Block, BlockHash: p.BlockHash, Results: res, ResultsHash: res.Hash(), RcBuild: p.RcBuild}
}

// FindProposal finds the proposal (block AND results) a certificate is about among the PROPOSE messages seen.
func (s *Sim) FindProposal(blockHash, resultsHash []byte) *Proposal {
	e := s.FindEnv(func(e *Env) bool {
		return e.Kind == "PR" && e.Msg.Qc != nil && e.Msg.Qc.Block != nil && e.Msg.Qc.Results != nil &&
			string(e.Msg.Qc.BlockHash) == string(blockHash) && string(e.Msg.Qc.ResultsHash) == string(resultsHash)
	})
	if e == nil {
		return nil
	}
	return ProposalOf(e)
}

// ProposalOf extracts the proposal of a PROPOSE envelope.
func ProposalOf(e *Env) *Proposal {
	q := e.Msg.Qc
	return &Proposal{Block: q.Block, BlockHash: q.BlockHash, Results: q.Results, ResultsHash: q.ResultsHash, RcBuild: e.Msg.RcBuildHeight}
}

// CraftPropose builds a PROPOSE message of Byzantine leader `i` at (root, round): `justify` is an election
// certificate (any - the adversary chooses), prop the proposal, highQc an optional lock justification.
func (s *Sim) CraftPropose(i int, root, round uint64, justify *lib.QuorumCertificate, prop *Proposal, highQc *lib.QuorumCertificate, dse []*bft.DoubleSignEvidence, to []int) *Env {
	qc := &lib.QuorumCertificate{Header: justify.Header, ProposerKey: justify.ProposerKey, Signature: justify.Signature,
		Block: prop.Block, BlockHash: prop.BlockHash, Results: prop.Results, ResultsHash: prop.ResultsHash}
	return s.CraftLeader(i, s.HeaderView(root, round, Propose), qc, highQc, dse, prop.RcBuild, to)
}

// CraftJustified builds a PRECOMMIT or COMMIT message of Byzantine leader `i` carrying `cert` (any certificate).
func (s *Sim) CraftJustified(i int, root, round uint64, ph lib.Phase, cert *lib.QuorumCertificate, rcBuild uint64, to []int) *Env {
	qc := cloneQC(cert)
	qc.Block, qc.Results = nil, nil
	return s.CraftLeader(i, s.HeaderView(root, round, ph), qc, nil, nil, rcBuild, to)
}

// Certs lists every distinct full or partial certificate that ever travelled inside a leader message or block gossip.
func (s *Sim) Certs() (out []*lib.QuorumCertificate) {
	seen := map[string]bool{}
	add := func(q *lib.QuorumCertificate) {
		if q == nil || q.Header == nil || q.Signature == nil {
			return
		}
		k := fmt.Sprintf("%d/%d/%d/%x/%x/%x", q.Header.RootHeight, q.Header.Round, q.Header.Phase, q.BlockHash, q.ProposerKey, q.Signature.Bitmap)
		if !seen[k] {
			seen[k] = true
			out = append(out, q)
		}
	}
	for _, e := range s.Pool {
		if e.Kind == "BLOCK" {
			add(e.Cert)
			continue
		}
		if e.Msg.Header != nil {
			add(e.Msg.Qc)
		}
		add(e.Msg.HighQc)
	}
	return
}

// BlockOf finds the block bytes and results for a block hash among the proposals seen on the network.
func (s *Sim) BlockOf(blockHash []byte) *Proposal {
	e := s.FindEnv(func(e *Env) bool {
		return e.Kind == "PR" && e.Msg.Qc != nil && e.Msg.Qc.Block != nil && string(e.Msg.Qc.BlockHash) == string(blockHash)
	})
	if e == nil {
		return nil
	}
	return ProposalOf(e)
}
