// Package chainsim drives the real canopy state machine (fsm) on a real store as a chain, from outside the
// package and without consensus: each Block() does exactly what Controller.CommitCertificate does for a block -
// ApplyBlock, IndexQC, IndexBlock, Commit, re-create the state machine - with a syntactically valid but unverified
// quorum certificate (BeginBlock of the next height only reads the certificate's results and signer bitmap).
//
// Nothing in here reads the wall clock or crypto/rand: transaction times come from a counter.
package chainsim

import (
	"context"
	"encoding/json"
	"fmt"
	"math/rand/v2"
	"os"
	"path/filepath"
	"sort"

	"github.com/canopy-network/canopy/fsm"
	"github.com/canopy-network/canopy/lib"
	"github.com/canopy-network/canopy/lib/crypto"
	"github.com/canopy-network/canopy/store"
	"github.com/cockroachdb/pebble/v2"
	"github.com/cockroachdb/pebble/v2/vfs"
)

// Chain is one simulated chain (one node's view: state machine + store).
type Chain struct {
	Cfg   lib.Config
	FS    *vfs.MemFS
	Store *store.Store
	FSM   *fsm.StateMachine
	Log   lib.LoggerI
	dir   string // temp dir holding genesis.json
	clock uint64 // deterministic tx time / block time source
	owned bool   // whether dir should be removed on Close
}

// Opts configures a new chain.
type Opts struct {
	ChainID   uint64 // default 1
	NetworkID uint64 // default 1
	Genesis   *fsm.GenesisState
	Mutate    func(*lib.Config) // optional config tweaks (faucet, protocol version, ...)
}

// New creates a chain at height 1 (genesis applied) on a crash-cloneable in-memory file system.
func New(o Opts) (*Chain, error) {
	cfg := lib.DefaultConfig()
	if o.ChainID == 0 {
		o.ChainID = 1
	}
	if o.NetworkID == 0 {
		o.NetworkID = 1
	}
	cfg.ChainId, cfg.NetworkID = o.ChainID, o.NetworkID
	// lib.DefaultConfig() draws a RANDOM latest-state compaction interval (500-600 versions); when a history crosses it the
	// store starts a background compaction goroutine that panics ("pebble: closed") if the chain is closed meanwhile - a
	// shutdown race of the store that has nothing to do with the properties decided on chainsim (compaction itself is
	// exercised by C10). Switched off here so that a run is a function of its seed; o.Mutate may switch it on again.
	cfg.StoreConfig.LSSCompactionInterval = 0
	dir, err := os.MkdirTemp("", "chainsim-")
	if err != nil {
		return nil, err
	}
	cfg.DataDirPath = dir
	if o.Mutate != nil {
		o.Mutate(&cfg)
	}
	gbz, err := json.Marshal(o.Genesis)
	if err != nil {
		return nil, err
	}
	if err = os.WriteFile(filepath.Join(dir, lib.GenesisFilePath), gbz, 0o644); err != nil {
		return nil, err
	}
	_ = os.WriteFile(filepath.Join(dir, lib.ProposalsFilePath), []byte("{}"), 0o644)
	_ = os.WriteFile(filepath.Join(dir, lib.PollsFilePath), []byte("{}"), 0o644)
	c := &Chain{Cfg: cfg, FS: vfs.NewCrashableMem(), Log: lib.NewNullLogger(), dir: dir, owned: true, clock: 1_700_000_000_000_000}
	if err = c.open(); err != nil {
		c.Close()
		return nil, err
	}
	return c, nil
}

func (c *Chain) open() error {
	st, e := store.VerifOpenWithFS(c.FS, "db", 0, c.Cfg, c.Log)
	if e != nil {
		return e
	}
	c.Store = st
	sm, e := fsm.New(c.Cfg, st, nil, nil, c.Log)
	if e != nil {
		return e
	}
	c.FSM = sm
	return nil
}

// Close releases the store and temp files.
func (c *Chain) Close() {
	if c.Store != nil {
		_ = c.Store.Close()
		c.Store = nil
	}
	if c.owned && c.dir != "" {
		_ = os.RemoveAll(c.dir)
	}
}

// Fork returns an independent copy of the chain in its current committed state (uncommitted work is not copied).
// It is a crash clone of the in-memory file system that keeps 100% of the unsynced data, re-opened.
func (c *Chain) Fork() (*Chain, error) {
	// commits are NoSync and pebble buffers WAL records in memory: force them into the file system first
	if err := c.Store.DB().LogData(nil, pebble.Sync); err != nil {
		return nil, err
	}
	clone := c.FS.CrashClone(vfs.CrashCloneCfg{UnsyncedDataPercent: 100, RNG: rand.New(rand.NewPCG(1, 2))})
	n := &Chain{Cfg: c.Cfg, FS: clone, Log: c.Log, dir: c.dir, clock: c.clock}
	if err := n.open(); err != nil {
		return nil, err
	}
	return n, nil
}

// Height is the height of the block that will be applied next.
func (c *Chain) Height() uint64 { return c.FSM.Height() }

// Tick returns a fresh deterministic microsecond timestamp.
func (c *Chain) Tick() uint64 { c.clock += 1000; return c.clock }

// BlockSpec describes the next block.
type BlockSpec struct {
	Txs        [][]byte
	Proposer   []byte                 // proposer address; default: address of the first committee member (or 20 zero bytes)
	Results    *lib.CertificateResult // certificate results certified with this block (consumed by the NEXT BeginBlock); default: 100% reward to proposer
	NonSigners []int                  // committee indexes (order of the committee at this height) whose bit is cleared in the certificate
	RootHeight uint64                 // default: height
	Time       uint64                 // default: Tick()
}

// Outcome is what applying a block produced.
type Outcome struct {
	Height  uint64
	Header  *lib.BlockHeader
	Block   *lib.Block
	Results *lib.ApplyBlockResults
	QC      *lib.QuorumCertificate
	Err     lib.ErrorI // non-nil when ApplyBlock itself failed (nothing committed)
}

// Committee returns the committee of this chain at the current height (may be empty).
func (c *Chain) Committee() lib.ValidatorSet {
	vs, _ := c.FSM.LoadCommittee(c.Cfg.ChainId, c.FSM.Height())
	return vs
}

func (c *Chain) defaultProposer() []byte {
	vs := c.Committee()
	if vs.ValidatorSet != nil && len(vs.ValidatorSet.ValidatorSet) > 0 {
		pk, err := crypto.NewPublicKeyFromBytes(vs.ValidatorSet.ValidatorSet[0].PublicKey)
		if err == nil {
			return pk.Address().Bytes()
		}
	}
	return make([]byte, 20)
}

// Propose executes the block on the proposer path (failing transactions are dropped) WITHOUT committing; the caller
// must call Commit(outcome) or Abort().
func (c *Chain) Propose(spec BlockSpec) *Outcome {
	h := c.FSM.Height()
	if spec.Proposer == nil {
		spec.Proposer = c.defaultProposer()
	}
	if spec.Time == 0 {
		spec.Time = c.Tick()
	}
	hdr := &lib.BlockHeader{Height: h, Time: spec.Time, ProposerAddress: spec.Proposer, NetworkId: uint32(c.Cfg.NetworkID)}
	if h > 1 {
		last, e := c.FSM.LoadCertificateHashesOnly(h - 1)
		if e != nil {
			return &Outcome{Height: h, Err: e}
		}
		hdr.LastQuorumCertificate = last
	}
	blk := &lib.Block{BlockHeader: hdr, Transactions: spec.Txs}
	header, res, e := c.FSM.ApplyBlock(context.Background(), blk, true)
	if e != nil {
		c.FSM.Reset()
		return &Outcome{Height: h, Err: e, Block: blk}
	}
	blk.BlockHeader = header
	out := &Outcome{Height: h, Header: header, Block: blk, Results: res}
	out.QC = c.makeQC(spec, out)
	return out
}

func (c *Chain) makeQC(spec BlockSpec, out *Outcome) *lib.QuorumCertificate {
	h := out.Height
	results := spec.Results
	if results == nil {
		results = &lib.CertificateResult{
			RewardRecipients: &lib.RewardRecipients{PaymentPercents: []*lib.PaymentPercents{{Address: spec.Proposer, Percent: 100, ChainId: c.Cfg.ChainId}}},
			SlashRecipients:  &lib.SlashRecipients{},
		}
	}
	if results.RewardRecipients == nil {
		results.RewardRecipients = &lib.RewardRecipients{}
	}
	if results.SlashRecipients == nil {
		results.SlashRecipients = &lib.SlashRecipients{}
	}
	rootH := spec.RootHeight
	if rootH == 0 {
		rootH = h
	}
	// committee that signs block h = committee as of the state before the block (height h)
	vs, _ := c.FSM.LoadCommittee(c.Cfg.ChainId, h)
	n := 0
	if vs.ValidatorSet != nil {
		n = len(vs.ValidatorSet.ValidatorSet)
	}
	bitmap := make([]byte, (n+7)/8)
	skip := map[int]bool{}
	for _, i := range spec.NonSigners {
		skip[i] = true
	}
	for i := 0; i < n; i++ {
		if !skip[i] {
			bitmap[i/8] |= 1 << uint(i%8)
		}
	}
	bz, _ := lib.Marshal(out.Block)
	pk := make([]byte, 48)
	return &lib.QuorumCertificate{
		Header:      &lib.View{NetworkId: c.Cfg.NetworkID, ChainId: c.Cfg.ChainId, Height: h, RootHeight: rootH, Phase: lib.Phase_PRECOMMIT_VOTE},
		Results:     results,
		ResultsHash: results.Hash(),
		Block:       bz,
		BlockHash:   out.Header.Hash,
		ProposerKey: pk,
		Signature:   &lib.AggregateSignature{Signature: make([]byte, 96), Bitmap: bitmap},
	}
}

// Commit indexes the certificate and block and commits the store (as Controller.CommitCertificate does), then
// re-creates the state machine at the next height.
func (c *Chain) Commit(out *Outcome) error {
	if out.Err != nil {
		return fmt.Errorf("cannot commit a failed block: %v", out.Err)
	}
	if e := c.Store.IndexQC(out.QC); e != nil {
		return e
	}
	if e := c.Store.IndexBlock(&lib.BlockResult{BlockHeader: out.Header, Transactions: out.Results.Results, Events: out.Results.Events}); e != nil {
		return e
	}
	if _, e := c.Store.Commit(); e != nil {
		return e
	}
	sm, e := fsm.New(c.Cfg, c.Store, nil, nil, c.Log)
	if e != nil {
		return e
	}
	c.FSM = sm
	return nil
}

// Abort throws away an uncommitted Propose().
func (c *Chain) Abort() { c.FSM.Reset() }

// Block = Propose + Commit. When ApplyBlock fails nothing is committed and Outcome.Err is set.
func (c *Chain) Block(spec BlockSpec) (*Outcome, error) {
	out := c.Propose(spec)
	if out.Err != nil {
		return out, nil
	}
	return out, c.Commit(out)
}

// Validate executes a block on the replica path (no failing transaction tolerated, no oversize) on this chain without
// committing and returns the header the replica computes.
func (c *Chain) Validate(blk *lib.Block) (*lib.BlockHeader, *lib.ApplyBlockResults, lib.ErrorI) {
	defer c.FSM.Reset()
	cp := &lib.Block{BlockHeader: blk.BlockHeader, Transactions: append([][]byte(nil), blk.Transactions...)}
	return c.FSM.ApplyBlock(context.Background(), cp, false)
}

// Scan returns the complete state (key -> value) as of the working state of the FSM (committed state if nothing is pending).
func (c *Chain) Scan() (map[string][]byte, error) {
	it, e := c.FSM.Iterator(nil)
	if e != nil {
		return nil, e
	}
	defer it.Close()
	out := map[string][]byte{}
	for ; it.Valid(); it.Next() {
		out[string(append([]byte(nil), it.Key()...))] = append([]byte(nil), it.Value()...)
	}
	return out, nil
}

// ScanDigest is a canonical, comparable rendering of a scan.
func ScanDigest(m map[string][]byte) string {
	keys := make([]string, 0, len(m))
	for k := range m {
		keys = append(keys, k)
	}
	sort.Strings(keys)
	h := crypto.Hash(nil)
	for _, k := range keys {
		h = crypto.Hash(append(append(append([]byte{}, h...), []byte(k)...), m[k]...))
	}
	return lib.BytesToString(h)
}

// Export returns the exported genesis-like view of the current state.
func (c *Chain) Export() (*fsm.GenesisState, error) {
	g, e := c.FSM.ExportState()
	if e != nil {
		return nil, e
	}
	return g, nil
}

// SignTx builds and signs a transaction deterministically (time from the chain's counter).
func (c *Chain) SignTx(pk crypto.PrivateKeyI, msg lib.MessageI, fee, createdHeight uint64, memo string) ([]byte, *lib.Transaction, error) {
	return SignTxAt(pk, msg, c.Cfg.NetworkID, c.Cfg.ChainId, fee, createdHeight, c.Tick(), memo)
}

// SignTxAt builds and signs a transaction with explicit network, chain and time.
func SignTxAt(pk crypto.PrivateKeyI, msg lib.MessageI, networkID, chainID, fee, createdHeight, txTime uint64, memo string) ([]byte, *lib.Transaction, error) {
	a, e := lib.NewAny(msg)
	if e != nil {
		return nil, nil, e
	}
	tx := &lib.Transaction{MessageType: msg.Name(), Msg: a, CreatedHeight: createdHeight, Time: txTime, Fee: fee, Memo: memo, NetworkId: networkID, ChainId: chainID}
	if e = tx.Sign(pk); e != nil {
		return nil, nil, e
	}
	bz, e := lib.Marshal(tx)
	if e != nil {
		return nil, nil, e
	}
	return bz, tx, nil
}
