package chainsim

import (
	"encoding/binary"
	"fmt"
	"math/big"
	"sort"

	"github.com/canopy-network/canopy/fsm"
	"github.com/canopy-network/canopy/lib"
)

// RawState is a decoded full scan of the state machine's key space (no FSM getter, no cache involved): every key
// under the account / pool / validator / order-book / dex / supply prefixes, unmarshalled from the stored bytes.
// It is what the accounting oracles (C20, C14b) read after every block.
type RawState struct {
	Accounts   map[string]uint64                    // hex(address) -> amount
	Pools      map[uint64]*fsm.Pool                 // pool id -> pool
	Validators map[string]*fsm.Validator            // hex(address) -> validator
	Orders     map[uint64]map[string]*lib.SellOrder // committee -> hex(order id) -> order
	Locked     map[uint64]*lib.DexBatch             // counter chain -> locked batch (as stored)
	Next       map[uint64]*lib.DexBatch             // counter chain -> next batch (as stored)
	Supply     *fsm.Supply
	Keys       int
}

// state key prefixes (fsm/key.go)
const (
	rsAccount   = 1
	rsPool      = 2
	rsValidator = 3
	rsSupply    = 10
	rsOrderBook = 13
	rsDex       = 15
)

// DecodeRaw decodes a Scan() result.
func DecodeRaw(scan map[string][]byte) (*RawState, error) {
	rs := &RawState{Accounts: map[string]uint64{}, Pools: map[uint64]*fsm.Pool{}, Validators: map[string]*fsm.Validator{},
		Orders: map[uint64]map[string]*lib.SellOrder{}, Locked: map[uint64]*lib.DexBatch{}, Next: map[uint64]*lib.DexBatch{},
		Supply: new(fsm.Supply), Keys: len(scan)}
	for k, v := range scan {
		segs := lib.DecodeLengthPrefixed([]byte(k))
		if len(segs) == 0 || len(segs[0]) != 1 {
			continue
		}
		switch segs[0][0] {
		case rsAccount:
			a := new(fsm.Account)
			if e := lib.Unmarshal(v, a); e != nil {
				return nil, fmt.Errorf("account %x: %v", k, e)
			}
			if len(segs) != 2 {
				return nil, fmt.Errorf("account key shape %x", k)
			}
			rs.Accounts[lib.BytesToString(segs[1])] = a.Amount
		case rsPool:
			p := new(fsm.Pool)
			if e := lib.Unmarshal(v, p); e != nil {
				return nil, fmt.Errorf("pool %x: %v", k, e)
			}
			if len(segs) != 2 || len(segs[1]) != 8 {
				return nil, fmt.Errorf("pool key shape %x", k)
			}
			rs.Pools[binary.BigEndian.Uint64(segs[1])] = p
		case rsValidator:
			val := new(fsm.Validator)
			if e := lib.Unmarshal(v, val); e != nil {
				return nil, fmt.Errorf("validator %x: %v", k, e)
			}
			rs.Validators[lib.BytesToString(segs[1])] = val
		case rsSupply:
			if e := lib.Unmarshal(v, rs.Supply); e != nil {
				return nil, fmt.Errorf("supply: %v", e)
			}
		case rsOrderBook:
			if len(segs) != 3 || len(segs[1]) != 8 {
				return nil, fmt.Errorf("order key shape %x", k)
			}
			o := new(lib.SellOrder)
			if e := lib.Unmarshal(v, o); e != nil {
				return nil, fmt.Errorf("order %x: %v", k, e)
			}
			c := binary.BigEndian.Uint64(segs[1])
			if rs.Orders[c] == nil {
				rs.Orders[c] = map[string]*lib.SellOrder{}
			}
			rs.Orders[c][lib.BytesToString(segs[2])] = o
		case rsDex:
			if len(segs) != 3 || len(segs[1]) != 1 || len(segs[2]) != 8 {
				return nil, fmt.Errorf("dex key shape %x", k)
			}
			b := new(lib.DexBatch)
			if e := lib.Unmarshal(v, b); e != nil {
				return nil, fmt.Errorf("dex batch %x: %v", k, e)
			}
			c := binary.BigEndian.Uint64(segs[2])
			if segs[1][0] == 1 {
				rs.Locked[c] = b
			} else {
				rs.Next[c] = b
			}
		}
	}
	return rs, nil
}

// Raw scans and decodes the working state of the chain.
func (c *Chain) Raw() (*RawState, error) {
	m, err := c.Scan()
	if err != nil {
		return nil, err
	}
	return DecodeRaw(m)
}

// PoolAmount returns the amount of a pool (0 when absent).
func (rs *RawState) PoolAmount(id uint64) uint64 {
	if p := rs.Pools[id]; p != nil {
		return p.Amount
	}
	return 0
}

// Account returns the balance of an address (0 when absent).
func (rs *RawState) Account(addr []byte) uint64 { return rs.Accounts[lib.BytesToString(addr)] }

// SupplyIdentity checks Supply.Total == sum(accounts) + sum(pools) + sum(stakes) in big integers.
func (rs *RawState) SupplyIdentity() error {
	sum := new(big.Int)
	for _, a := range rs.Accounts {
		sum.Add(sum, new(big.Int).SetUint64(a))
	}
	for _, p := range rs.Pools {
		sum.Add(sum, new(big.Int).SetUint64(p.Amount))
	}
	for _, v := range rs.Validators {
		sum.Add(sum, new(big.Int).SetUint64(v.StakedAmount))
	}
	if sum.Cmp(new(big.Int).SetUint64(rs.Supply.Total)) != 0 {
		return fmt.Errorf("supply identity broken: Supply.Total=%d, accounts+pools+stakes=%s", rs.Supply.Total, sum)
	}
	return nil
}

// SortedOrderIds lists the open order ids (hex) of a committee in canonical order.
func (rs *RawState) SortedOrderIds(committee uint64) []string {
	ids := make([]string, 0, len(rs.Orders[committee]))
	for id := range rs.Orders[committee] {
		ids = append(ids, id)
	}
	sort.Strings(ids)
	return ids
}
