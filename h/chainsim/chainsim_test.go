package chainsim

import (
	"testing"

	"github.com/canopy-network/canopy/fsm"
	"github.com/canopy-network/canopy/lib/crypto"

	"verif/h/keys"
)

func TestSmoke(t *testing.T) {
	g := BuildGenesis(1, []ValSpec{{Key: 0, OutputKey: -1, Stake: 1000}, {Key: 1, OutputKey: -1, Stake: 1000}, {Key: 2, OutputKey: -1, Stake: 1000}},
		[]AcctSpec{{0, 0, 1_000_000}, {1, 5, 2_000_000}}, nil, nil)
	c, err := New(Opts{Genesis: g})
	if err != nil {
		t.Fatal(err)
	}
	defer c.Close()
	if c.Height() != 1 {
		t.Fatalf("height %d", c.Height())
	}
	for i := 0; i < 5; i++ {
		to := crypto.NewAddress(Addr(keys.Ed(9)))
		tx, _, err := c.SignTx(keys.Ed(5), &fsm.MessageSend{FromAddress: Addr(keys.Ed(5)), ToAddress: to.Bytes(), Amount: 1000}, 10000, c.Height(), "")
		if err != nil {
			t.Fatal(err)
		}
		out, err := c.Block(BlockSpec{Txs: [][]byte{tx}})
		if err != nil || out.Err != nil {
			t.Fatalf("block %d: %v %v", i, err, out.Err)
		}
		if len(out.Results.Failed) != 0 {
			t.Fatalf("failed tx: %v", out.Results.Failed[0].Error)
		}
	}
	f, err := c.Fork()
	if err != nil {
		t.Fatal(err)
	}
	defer f.Close()
	s1, _ := c.Scan()
	s2, _ := f.Scan()
	if ScanDigest(s1) != ScanDigest(s2) || f.Height() != c.Height() {
		t.Fatalf("fork differs: %d vs %d keys, heights %d %d", len(s1), len(s2), f.Height(), c.Height())
	}
	// fork continues independently
	if out, err := f.Block(BlockSpec{}); err != nil || out.Err != nil {
		t.Fatalf("fork block: %v %v", err, out.Err)
	}
	if out, err := c.Block(BlockSpec{}); err != nil || out.Err != nil {
		t.Fatalf("main block: %v %v", err, out.Err)
	}
	ex, _ := c.Export()
	t.Logf("height %d keys %d supply %d", c.Height(), len(s1), ex.Supply.Total)
}
