package chainsim

// txs.go: transaction construction helpers shared by the transaction-level properties (C05, C06, C07a):
// a genesis with every kind of actor, Ethereum (RLP / RLP.V2) wrapped transactions built with go-ethereum, BLS t-of-n
// multisig account signing, a cheap way to reach large heights, and readable state diffs.

import (
	"bytes"
	"crypto/ecdsa"
	"encoding/hex"
	"fmt"
	"math"
	"math/big"
	"sort"

	"github.com/canopy-network/canopy/fsm"
	"github.com/canopy-network/canopy/lib"
	"github.com/canopy-network/canopy/lib/crypto"
	"github.com/canopy-network/canopy/store"
	"github.com/drand/kyber"
	"github.com/ethereum/go-ethereum/common"
	ethTypes "github.com/ethereum/go-ethereum/core/types"

	"verif/h/keys"
)

// Key kinds (same numbering as keys.Kind / AcctSpec.Kind).
const (
	KindBLS  = 0
	KindEd   = 1
	KindSecp = 2
	KindEth  = 3
)

// KindName is the evidence label of a key kind.
func KindName(k int) string { return [...]string{"bls", "ed25519", "secp256k1", "eth-secp256k1"}[k%4] }

// Multi describes a BLS t-of-n multisig ACCOUNT key (crypto.NewAccountAuthMultiBLSFromPoints): members are keys.BLS indexes in
// the order they appear in the serialized key.
type Multi struct {
	Members   []int
	Threshold uint32
}

// Key builds a fresh multisig public key object (no signer enabled).
func (m Multi) Key() crypto.MultiPublicKeyI {
	pts := make([]kyber.Point, 0, len(m.Members))
	for _, i := range m.Members {
		p, err := crypto.BytesToBLS12381Point(keys.BLS(i).PublicKey().Bytes())
		if err != nil {
			panic(err)
		}
		pts = append(pts, p)
	}
	k, err := crypto.NewAccountAuthMultiBLSFromPoints(pts, nil, m.Threshold)
	if err != nil {
		panic(err)
	}
	return k
}

// Address is the account address of the multisig (independent of member order and bitmap).
func (m Multi) Address() []byte { return m.Key().Address().Bytes() }

// SignMulti signs tx with the members at the given positions (indexes into m.Members) and stores the aggregate
// signature plus the serialized key (with the signer bitmap) in tx.Signature.
func SignMulti(tx *lib.Transaction, m Multi, positions []int) error {
	sb, e := tx.GetSignBytes()
	if e != nil {
		return e
	}
	k := m.Key()
	for _, p := range positions {
		if err := k.AddSigner(keys.BLS(m.Members[p]).Sign(sb), p); err != nil {
			return err
		}
	}
	agg, err := k.AggregateSignatures()
	if err != nil {
		return err
	}
	tx.Signature = &lib.Signature{PublicKey: k.Bytes(), Signature: agg}
	return nil
}

// UnsignedTx assembles a transaction without signature.
func UnsignedTx(msg lib.MessageI, networkID, chainID, fee, createdHeight, txTime uint64, memo string) (*lib.Transaction, error) {
	a, e := lib.NewAny(msg)
	if e != nil {
		return nil, e
	}
	return &lib.Transaction{MessageType: msg.Name(), Msg: a, CreatedHeight: createdHeight, Time: txTime, Fee: fee, Memo: memo, NetworkId: networkID, ChainId: chainID}, nil
}

// MustMarshal marshals with the node's deterministic marshaller.
func MustMarshal(m any) []byte {
	b, e := lib.Marshal(m)
	if e != nil {
		panic(e)
	}
	return b
}

// ---- Ethereum wrapped transactions -------------------------------------------------------------------------------

// RLPSpec selects the shape of an Ethereum transaction that wraps a canopy message.
type RLPSpec struct {
	V2     bool   // memo "RLP.V2" (account nonce, domain separated EVM chain id) instead of legacy "RLP" (nonce = created height)
	Nonce  uint64 // Ethereum nonce
	Gas    uint64 // gas limit: becomes the pseudo timestamp; fee = Gas (price is fixed to 1e12 wei = 1 uCNPY per gas)
	TxType int    // 0 dynamic fee (EIP-1559), 1 legacy EIP-155, 2 access list (EIP-2930)
	ABI    bool   // send only: ERC20 transfer(address,uint256) call on the CNPY pseudo contract instead of a native value transfer
}

// EthECDSA extracts the ecdsa key of a keys.Eth key.
func EthECDSA(k crypto.PrivateKeyI) *ecdsa.PrivateKey {
	return k.(*crypto.ETHSECP256K1PrivateKey).PrivateKey
}

var (
	rlpSelectors = map[string]string{
		fsm.MessageStakeName: fsm.StakeSelector, fsm.MessageEditStakeName: fsm.EditStakeSelector, fsm.MessageUnstakeName: fsm.UnstakeSelector,
		fsm.MessageCreateOrderName: fsm.CreateOrderSelector, fsm.MessageEditOrderName: fsm.EditOrderSelector, fsm.MessageDeleteOrderName: fsm.DeleteOrderSelector,
		fsm.MessageSubsidyName: fsm.SubsidySelector,
	}
	rlpContracts = map[string]string{
		fsm.MessageStakeName: fsm.StakedCNPYContractAddress, fsm.MessageEditStakeName: fsm.StakedCNPYContractAddress, fsm.MessageUnstakeName: fsm.StakedCNPYContractAddress,
		fsm.MessageCreateOrderName: fsm.SwapCNPYContractAddress, fsm.MessageEditOrderName: fsm.SwapCNPYContractAddress, fsm.MessageDeleteOrderName: fsm.SwapCNPYContractAddress,
		fsm.MessageSubsidyName: fsm.CNPYContractAddress,
	}
)

// RLPSupports reports whether the Ethereum translation layer can carry this message type.
func RLPSupports(msgName string) bool {
	_, ok := rlpSelectors[msgName]
	return ok || msgName == fsm.MessageSendName
}

// EthRaw builds and signs the raw Ethereum transaction (types.MustSignNewTx + MarshalBinary) that wraps msg.
func EthRaw(key crypto.PrivateKeyI, networkID, chainID uint64, msg lib.MessageI, sp RLPSpec) ([]byte, error) {
	evm := fsm.CanopyIdsToEVMChainId(chainID, networkID)
	if sp.V2 {
		var ok bool
		if evm, ok = fsm.CanopyIdsToEVMChainIdV2(chainID, networkID); !ok {
			return nil, fmt.Errorf("ids not representable as RLP.V2 chain id")
		}
	}
	id := new(big.Int).SetUint64(evm)
	var to common.Address
	var data []byte
	value := new(big.Int)
	if s, ok := msg.(*fsm.MessageSend); ok {
		if sp.ABI {
			to = common.HexToAddress(fsm.CNPYContractAddress)
			sel, _ := hex.DecodeString(fsm.SendSelector)
			data = append(data, sel...)
			data = append(data, make([]byte, 12)...)
			data = append(data, s.ToAddress...)
			data = append(data, common.LeftPadBytes(new(big.Int).SetUint64(s.Amount).Bytes(), 32)...)
		} else {
			to = common.BytesToAddress(s.ToAddress)
			value = fsm.UpscaleTo18Decimals(s.Amount)
		}
	} else {
		selHex, ok := rlpSelectors[msg.Name()]
		if !ok {
			return nil, fmt.Errorf("message %s has no RLP selector", msg.Name())
		}
		to = common.HexToAddress(rlpContracts[msg.Name()])
		sel, _ := hex.DecodeString(selHex)
		data = append(append(data, sel...), MustMarshal(msg)...)
	}
	price := big.NewInt(1_000_000_000_000)
	var inner ethTypes.TxData
	switch sp.TxType {
	case 1:
		inner = &ethTypes.LegacyTx{Nonce: sp.Nonce, GasPrice: price, Gas: sp.Gas, To: &to, Value: value, Data: data}
	case 2:
		inner = &ethTypes.AccessListTx{ChainID: id, Nonce: sp.Nonce, GasPrice: price, Gas: sp.Gas, To: &to, Value: value, Data: data}
	default:
		// effective price = min(cap, base fee + tip) = 1e12
		tip := new(big.Int).Sub(price, big.NewInt(fsm.EthereumBaseFeePerGas))
		inner = &ethTypes.DynamicFeeTx{ChainID: id, Nonce: sp.Nonce, GasTipCap: tip, GasFeeCap: price, Gas: sp.Gas, To: &to, Value: value, Data: data}
	}
	signed, err := ethTypes.SignNewTx(EthECDSA(key), ethTypes.LatestSignerForChainID(id), inner)
	if err != nil {
		return nil, err
	}
	return signed.MarshalBinary()
}

// RLPTx builds the canopy transaction for an Ethereum-wrapped message exactly as the node's RPC does
// (fsm.RLPToCanopyTransaction / ...V2 on the raw bytes) and returns (canopy tx bytes, decoded tx, raw ethereum tx).
func RLPTx(key crypto.PrivateKeyI, networkID, chainID uint64, msg lib.MessageI, sp RLPSpec) ([]byte, *lib.Transaction, []byte, error) {
	raw, err := EthRaw(key, networkID, chainID, msg, sp)
	if err != nil {
		return nil, nil, nil, err
	}
	tx, e := RLPWrap(raw, sp.V2)
	if e != nil {
		return nil, nil, raw, e
	}
	return MustMarshal(tx), tx, raw, nil
}

// RLPWrap converts raw Ethereum transaction bytes into the canopy wrapper transaction.
func RLPWrap(raw []byte, v2 bool) (*lib.Transaction, lib.ErrorI) {
	if v2 {
		return fsm.RLPToCanopyTransactionV2(raw)
	}
	return fsm.RLPToCanopyTransaction(raw)
}

// ---- a genesis with every kind of actor ---------------------------------------------------------------------------

// Cast names the actors of RichGenesis.
type Cast struct {
	ChainID uint64
	// validators (operator key = keys.BLS(i)): 0,1,2 custodial; 3 non-custodial with output keys.Ed(3); 4 custodial delegate;
	// 5 non-custodial delegate with output keys.Secp(5)
	Custodial      []int
	NonCustodial   int
	NonCustodialEd int
	Delegate       int
	DelegateNC     int
	DelegateNCSecp int
	// funded accounts: for every key kind the key indexes 10..15
	Funded []int
	// funded multisig accounts
	Multis []Multi
	// Whale is a funded account (keys.Ed(90)) whose balance is so close to 2^64 that crediting it overflows: lets a
	// handler fail AFTER it already debited the sender / the pool
	Whale int
}

// GenesisOpts tunes RichGenesis.
type GenesisOpts struct {
	Params    *fsm.Params
	Balance   uint64 // balance of every funded account; default 1e13
	DAO       uint64 // DAO pool; default 5e10
	WithWhale bool
	Stake     uint64 // validator stake; default 1e9
}

// RichGenesis builds a genesis with validators (custodial / non-custodial / delegates), funded accounts of every key kind,
// funded multisig accounts and a funded DAO pool.
func RichGenesis(chainID uint64, o GenesisOpts) (*fsm.GenesisState, *Cast) {
	if o.Balance == 0 {
		o.Balance = 10_000_000_000_000
	}
	if o.DAO == 0 {
		o.DAO = 50_000_000_000
	}
	if o.Stake == 0 {
		o.Stake = 1_000_000_000
	}
	if o.Params == nil {
		// every chain of the harness is its own root chain
		o.Params = fsm.DefaultParams()
		o.Params.Consensus.RootChainId = chainID
	}
	cast := &Cast{ChainID: chainID, Custodial: []int{0, 1, 2}, NonCustodial: 3, NonCustodialEd: 3, Delegate: 4, DelegateNC: 5, DelegateNCSecp: 5,
		Funded: []int{10, 11, 12, 13, 14, 15}, Whale: 90,
		Multis: []Multi{{Members: []int{20, 21, 22}, Threshold: 2}, {Members: []int{23, 24}, Threshold: 1}, {Members: []int{25, 26, 27}, Threshold: 3}}}
	vals := []ValSpec{
		{Key: 0, OutputKey: -1, Stake: o.Stake}, {Key: 1, OutputKey: -1, Stake: o.Stake}, {Key: 2, OutputKey: -1, Stake: o.Stake},
		{Key: 3, OutputKey: 3, Stake: o.Stake},
		{Key: 4, OutputKey: -1, Stake: o.Stake, Delegate: true},
	}
	var accts []AcctSpec
	for kind := 0; kind < 4; kind++ {
		for _, k := range cast.Funded {
			accts = append(accts, AcctSpec{Kind: kind, Key: k, Amount: o.Balance})
		}
	}
	// operators and outputs can pay fees
	for i := 0; i <= 5; i++ {
		accts = append(accts, AcctSpec{Kind: KindBLS, Key: i, Amount: o.Balance})
	}
	accts = append(accts, AcctSpec{Kind: KindEd, Key: 3, Amount: o.Balance}, AcctSpec{Kind: KindSecp, Key: 5, Amount: o.Balance})
	g := BuildGenesis(chainID, vals, accts, []*fsm.Pool{{Id: lib.DAOPoolID, Amount: o.DAO}}, o.Params)
	for i := range g.Validators {
		if g.Validators[i].Delegate {
			g.Validators[i].NetAddress = ""
		}
	}
	// non-custodial delegate with a secp256k1 output address
	k5 := keys.BLS(5)
	g.Validators = append(g.Validators, &fsm.Validator{Address: Addr(k5), PublicKey: k5.PublicKey().Bytes(), StakedAmount: o.Stake,
		Committees: []uint64{chainID}, Output: Addr(keys.Secp(5)), Delegate: true})
	for _, m := range cast.Multis {
		g.Accounts = append(g.Accounts, &fsm.Account{Address: m.Address(), Amount: o.Balance})
	}
	if o.WithWhale {
		g.Accounts = append(g.Accounts, &fsm.Account{Address: Addr(keys.Ed(cast.Whale)), Amount: math.MaxUint64 - 1_000_000_000_000_000_000})
	}
	return g, cast
}

// ---- reaching large heights cheaply -------------------------------------------------------------------------------

// FastForward moves the chain to `height` (the next block to apply) without executing the blocks in between: it commits
// empty store versions and indexes one synthetic empty block + certificate for height-1, so that the state machine sees
// height, committed state and transaction index exactly as after that many blocks, minus the per-block automatic state
// changes (minting, reward distribution). 20 us per skipped height.
func (c *Chain) FastForward(height uint64) error {
	if height <= c.Height() {
		return fmt.Errorf("cannot fast-forward from %d to %d", c.Height(), height)
	}
	c.FSM.Reset()
	last, e := c.FSM.LoadBlock(c.Height() - 1)
	if e != nil {
		return e
	}
	for c.Store.Version() < height-1 { // FSM height == store version; block h is committed as version h+1
		if _, e = c.Store.Commit(); e != nil {
			return e
		}
	}
	h := height - 1
	hdr := &lib.BlockHeader{Height: h, NetworkId: uint32(c.Cfg.NetworkID), Time: c.Tick(), TotalTxs: last.BlockHeader.TotalTxs,
		LastBlockHash: last.BlockHeader.Hash, StateRoot: last.BlockHeader.StateRoot, TransactionRoot: last.BlockHeader.TransactionRoot,
		ValidatorRoot: last.BlockHeader.NextValidatorRoot, NextValidatorRoot: last.BlockHeader.NextValidatorRoot, ProposerAddress: c.defaultProposer()}
	if _, e = hdr.SetHash(); e != nil {
		return e
	}
	out := &Outcome{Height: h, Header: hdr, Block: &lib.Block{BlockHeader: hdr}, Results: &lib.ApplyBlockResults{}}
	out.QC = c.makeQC(BlockSpec{Proposer: hdr.ProposerAddress}, out)
	store.VerifPurgeBlockCache()
	return c.Commit(out)
}

// Use must be called when a test switches between two chains that hold DIFFERENT blocks at the same height: the store's
// block cache is process wide and keyed by height only (one node per process in production).
func (c *Chain) Use() *Chain { store.VerifPurgeBlockCache(); return c }

// ---- readable state diffs -----------------------------------------------------------------------------------------

var statePrefixNames = map[byte]string{1: "account", 2: "pool", 3: "validator", 4: "committee", 5: "unstaking", 6: "paused", 7: "params", 8: "nonsigner",
	9: "lastproposers", 10: "supply", 11: "delegate", 12: "committeedata", 13: "order", 14: "retired", 15: "dex"}

// KeyName renders a state key readably: "<kind>/<hex of the remaining segments>".
func KeyName(k string) string {
	segs := lib.DecodeLengthPrefixed([]byte(k))
	if len(segs) == 0 || len(segs[0]) != 1 {
		return hex.EncodeToString([]byte(k))
	}
	s := statePrefixNames[segs[0][0]]
	if s == "" {
		s = fmt.Sprintf("p%d", segs[0][0])
	}
	for _, seg := range segs[1:] {
		s += "/" + hex.EncodeToString(seg)
	}
	return s
}

func valueName(k string, v []byte) string {
	if v == nil {
		return "<absent>"
	}
	segs := lib.DecodeLengthPrefixed([]byte(k))
	if len(segs) > 0 && len(segs[0]) == 1 {
		switch segs[0][0] {
		case 1:
			a := new(fsm.Account)
			if lib.Unmarshal(v, a) == nil {
				return fmt.Sprintf("{amount:%d nonce:%d vesting:%d}", a.Amount, a.Nonce, a.VestingAmount)
			}
		case 2:
			p := new(fsm.Pool)
			if lib.Unmarshal(v, p) == nil {
				return fmt.Sprintf("{id:%d amount:%d}", p.Id, p.Amount)
			}
		case 3:
			p := new(fsm.Validator)
			if lib.Unmarshal(v, p) == nil {
				return fmt.Sprintf("{stake:%d out:%x unstaking:%d paused:%d committees:%v}", p.StakedAmount, p.Output, p.UnstakingHeight, p.MaxPausedHeight, p.Committees)
			}
		}
	}
	if len(v) > 24 {
		return fmt.Sprintf("%x…(%dB)", v[:24], len(v))
	}
	return hex.EncodeToString(v)
}

// DiffScans lists the keys whose value differs between two full state scans ("" when equal).
func DiffScans(a, b map[string][]byte) string {
	var ks []string
	for k, v := range a {
		if w, ok := b[k]; !ok || !bytes.Equal(v, w) {
			ks = append(ks, k)
		}
	}
	for k := range b {
		if _, ok := a[k]; !ok {
			ks = append(ks, k)
		}
	}
	if len(ks) == 0 {
		return ""
	}
	sort.Strings(ks)
	s := fmt.Sprintf("%d keys differ:", len(ks))
	for i, k := range ks {
		if i == 12 {
			s += " …"
			break
		}
		var av, bv []byte
		if v, ok := a[k]; ok {
			av = v
			if av == nil {
				av = []byte{}
			}
		}
		if v, ok := b[k]; ok {
			bv = v
			if bv == nil {
				bv = []byte{}
			}
		}
		s += fmt.Sprintf("\n   %s: %s  vs  %s", KeyName(k), valueName(k, av), valueName(k, bv))
	}
	return s
}

// AccountIn decodes an account out of a full state scan (zero account when absent).
func AccountIn(scan map[string][]byte, addr []byte) *fsm.Account {
	a := &fsm.Account{Address: addr}
	if v, ok := scan[string(fsm.KeyForAccount(crypto.NewAddress(addr)))]; ok {
		_ = lib.Unmarshal(v, a)
	}
	return a
}

// PoolIn decodes a pool out of a full state scan (zero pool when absent).
func PoolIn(scan map[string][]byte, id uint64) *fsm.Pool {
	p := &fsm.Pool{Id: id}
	if v, ok := scan[string(fsm.KeyForPool(id))]; ok {
		_ = lib.Unmarshal(v, p)
	}
	return p
}

// ValidatorIn decodes a validator out of a full state scan (nil when absent).
func ValidatorIn(scan map[string][]byte, addr []byte) *fsm.Validator {
	if v, ok := scan[string(fsm.KeyForValidator(crypto.NewAddress(addr)))]; ok {
		p := new(fsm.Validator)
		if lib.Unmarshal(v, p) == nil {
			return p
		}
	}
	return nil
}

// OrdersIn lists the sell orders of a committee found in a full state scan, in key order.
func OrdersIn(scan map[string][]byte, chainID uint64) []*lib.SellOrder {
	pre := string(fsm.OrderBookPrefix(chainID))
	var ks []string
	for k := range scan {
		if len(k) >= len(pre) && k[:len(pre)] == pre {
			ks = append(ks, k)
		}
	}
	sort.Strings(ks)
	var out []*lib.SellOrder
	for _, k := range ks {
		o := new(lib.SellOrder)
		if lib.Unmarshal(scan[k], o) == nil {
			out = append(out, o)
		}
	}
	return out
}

// ---- signers ------------------------------------------------------------------------------------------------------

// Signer kinds beyond the four single-key kinds.
const (
	KindMulti = 4 // BLS t-of-n multisig account key
	KindRLP   = 5 // legacy Ethereum-wrapped transaction (memo "RLP", eth key)
	KindRLPV2 = 6 // nonce based Ethereum-wrapped transaction (memo "RLP.V2", eth key)
)

// SignerKindName is the evidence label of a signer kind.
func SignerKindName(k int) string {
	return [...]string{"bls", "ed25519", "secp256k1", "eth-secp256k1", "bls-multisig", "rlp", "rlp-v2"}[k]
}

// Signer is anything that can authorise a transaction.
type Signer struct {
	Kind      int
	Key       int   // key index (single keys: keys.Kind(Kind,Key); RLP kinds: keys.Eth(Key))
	Multi     Multi // KindMulti
	Positions []int // KindMulti: which members sign
	TxType    int   // RLP kinds: ethereum transaction type (see RLPSpec)
	ABI       bool  // RLP kinds, send only
}

// Private returns the private key of a single-key or RLP signer.
func (s Signer) Private() crypto.PrivateKeyI {
	switch s.Kind {
	case KindRLP, KindRLPV2:
		return keys.Eth(s.Key)
	case KindMulti:
		return nil
	}
	return keys.Kind(s.Kind, s.Key)
}

// Address is the account address the signer controls.
func (s Signer) Address() []byte {
	if s.Kind == KindMulti {
		return s.Multi.Address()
	}
	return Addr(s.Private())
}

// PublicKey is the serialized public key of the signer (multisig: with an empty bitmap).
func (s Signer) PublicKey() []byte {
	if s.Kind == KindMulti {
		return s.Multi.Key().Bytes()
	}
	return s.Private().PublicKey().Bytes()
}

// String is a short readable label.
func (s Signer) String() string {
	switch s.Kind {
	case KindMulti:
		return fmt.Sprintf("multisig(%d-of-%v signed by %v)", s.Multi.Threshold, s.Multi.Members, s.Positions)
	case KindRLP, KindRLPV2:
		return fmt.Sprintf("%s(eth%d type%d abi=%v)", SignerKindName(s.Kind), s.Key, s.TxType, s.ABI)
	}
	return fmt.Sprintf("%s%d", SignerKindName(s.Kind), s.Key)
}

// TxOpts are the envelope fields of a transaction.
type TxOpts struct {
	NetworkID, ChainID uint64 // default: the chain's
	Fee                uint64 // RLP kinds: becomes the gas limit (price is 1 uCNPY per gas), which also determines the pseudo timestamp
	Created            uint64 // RLP: the ethereum nonce; RLP.V2: ignored (sentinel 1)
	Nonce              uint64 // RLP.V2 only
	Memo               string // ignored by the RLP kinds
	Time               uint64 // default: c.Tick(); ignored by the RLP kinds
}

// Sign builds the canopy transaction bytes for msg authorised by s.
func (c *Chain) Sign(s Signer, msg lib.MessageI, o TxOpts) ([]byte, *lib.Transaction, error) {
	if o.NetworkID == 0 {
		o.NetworkID = c.Cfg.NetworkID
	}
	if o.ChainID == 0 {
		o.ChainID = c.Cfg.ChainId
	}
	switch s.Kind {
	case KindRLP:
		bz, tx, _, err := RLPTx(keys.Eth(s.Key), o.NetworkID, o.ChainID, msg, RLPSpec{Nonce: o.Created, Gas: o.Fee, TxType: s.TxType, ABI: s.ABI})
		return bz, tx, err
	case KindRLPV2:
		bz, tx, _, err := RLPTx(keys.Eth(s.Key), o.NetworkID, o.ChainID, msg, RLPSpec{V2: true, Nonce: o.Nonce, Gas: o.Fee, TxType: s.TxType, ABI: s.ABI})
		return bz, tx, err
	}
	if o.Time == 0 {
		o.Time = c.Tick()
	}
	tx, err := UnsignedTx(msg, o.NetworkID, o.ChainID, o.Fee, o.Created, o.Time, o.Memo)
	if err != nil {
		return nil, nil, err
	}
	if s.Kind == KindMulti {
		if err = SignMulti(tx, s.Multi, s.Positions); err != nil {
			return nil, nil, err
		}
	} else if e := tx.Sign(s.Private()); e != nil {
		return nil, nil, e
	}
	return MustMarshal(tx), tx, nil
}
