package chainsim

// scenario.go: for a (message type, signer) pair build the prerequisite transactions and the payload of one VALID
// transaction T on a RichGenesis chain, together with the ledger effect T must have on its signer. Shared by C05/C06/C07a.

import (
	"fmt"

	"github.com/canopy-network/canopy/fsm"
	"github.com/canopy-network/canopy/lib"
	"github.com/canopy-network/canopy/lib/crypto"

	"verif/h/keys"
)

// ScenarioTypes are the message types NewScenario knows.
var ScenarioTypes = []string{fsm.MessageSendName, fsm.MessageStakeName, fsm.MessageEditStakeName, fsm.MessageUnstakeName, fsm.MessageCreateOrderName,
	fsm.MessageEditOrderName, fsm.MessageDeleteOrderName, fsm.MessageSubsidyName, fsm.MessageDAOTransferName, fsm.MessageChangeParameterName}

// DefaultFee is the fee used by scenario transactions (the default state fee of every message type is 10000; RLP signers
// turn the fee into the gas limit).
const DefaultFee = 25000

// MinOrder is the default minimum order size.
const MinOrder = 1_000_000_000

// Scenario is one valid transaction in context.
type Scenario struct {
	MsgType string
	Signer  Signer
	Setup   [][]byte     // transactions that must be included (all succeed) in a block before T
	Msg     lib.MessageI // payload of T
	// ledger effect of T on the signer's account besides the fee
	Debit, Credit uint64
	Recipient     []byte // send: the (fresh) recipient
	Validator     []byte // stake / edit-stake / unstake: validator address
	OrderID       []byte // edit / delete order
	OrderChain    uint64
	NextNonce     uint64 // RLP.V2 signer: the nonce T must use (setup consumed the ones below)
	NewStake      uint64
}

// SignerSupports reports whether signer kind k can carry message type mt.
func SignerSupports(k int, mt string) bool {
	if k == KindRLP || k == KindRLPV2 {
		return RLPSupports(mt)
	}
	return true
}

// NewScenario builds the scenario on chain c (which must be a RichGenesis chain whose signer account is funded).
// amount is the principal (send amount, stake, order size increment ...); salt individualises fresh addresses.
func NewScenario(c *Chain, mt string, s Signer, amount uint64, salt int) (*Scenario, error) {
	if !SignerSupports(s.Kind, mt) {
		return nil, fmt.Errorf("signer kind %s cannot carry %s", SignerKindName(s.Kind), mt)
	}
	sc := &Scenario{MsgType: mt, Signer: s}
	me := s.Address()
	chain := c.Cfg.ChainId
	h := c.Height()
	opts := func() TxOpts { o := TxOpts{Fee: DefaultFee, Created: h, Nonce: sc.NextNonce}; sc.NextNonce++; return o }
	stakeMsg := func(amt uint64) *fsm.MessageStake {
		return &fsm.MessageStake{PublicKey: s.PublicKey(), Amount: amt, Committees: []uint64{chain}, OutputAddress: me, Delegate: true}
	}
	orderMsg := func(amt uint64) *fsm.MessageCreateOrder {
		return &fsm.MessageCreateOrder{ChainId: chain, Data: []byte{byte(salt), 0xda}, AmountForSale: amt, RequestedAmount: amt / 2,
			SellerReceiveAddress: Addr(keys.Secp(3000 + salt)), SellersSendAddress: me}
	}
	switch mt {
	case fsm.MessageSendName:
		sc.Recipient = Addr(keys.Ed(2000 + salt))
		sc.Msg = &fsm.MessageSend{FromAddress: me, ToAddress: sc.Recipient, Amount: amount}
		sc.Debit = amount
	case fsm.MessageStakeName:
		sc.Msg, sc.Debit, sc.Validator, sc.NewStake = stakeMsg(amount), amount, me, amount
	case fsm.MessageEditStakeName, fsm.MessageUnstakeName:
		base := uint64(500_000)
		bz, _, err := c.Sign(s, stakeMsg(base), opts())
		if err != nil {
			return nil, err
		}
		sc.Setup, sc.Validator = append(sc.Setup, bz), me
		if mt == fsm.MessageEditStakeName {
			sc.Msg = &fsm.MessageEditStake{Address: me, Amount: base + amount, Committees: []uint64{chain}, OutputAddress: me}
			sc.Debit, sc.NewStake = amount, base+amount
		} else {
			sc.Msg, sc.NewStake = &fsm.MessageUnstake{Address: me}, base
		}
	case fsm.MessageCreateOrderName:
		sc.Msg, sc.Debit, sc.OrderChain = orderMsg(MinOrder+amount), MinOrder+amount, chain
	case fsm.MessageEditOrderName, fsm.MessageDeleteOrderName:
		bz, _, err := c.Sign(s, orderMsg(MinOrder), opts())
		if err != nil {
			return nil, err
		}
		sc.Setup, sc.OrderID, sc.OrderChain = append(sc.Setup, bz), crypto.Hash(bz)[:20], chain
		if mt == fsm.MessageEditOrderName {
			sc.Msg = &fsm.MessageEditOrder{OrderId: sc.OrderID, ChainId: chain, Data: []byte{0xed}, AmountForSale: MinOrder + amount, RequestedAmount: 77,
				SellerReceiveAddress: Addr(keys.Secp(3000 + salt))}
			sc.Debit = amount
		} else {
			sc.Msg, sc.Credit = &fsm.MessageDeleteOrder{OrderId: sc.OrderID, ChainId: chain}, MinOrder
		}
	case fsm.MessageSubsidyName:
		sc.Msg, sc.Debit = &fsm.MessageSubsidy{Address: me, ChainId: chain, Amount: amount, Opcode: []byte{byte(salt)}}, amount
	case fsm.MessageDAOTransferName:
		start := uint64(1)
		if h > 100 {
			start = h - 100
		}
		sc.Msg, sc.Credit = &fsm.MessageDAOTransfer{Address: me, Amount: amount, StartHeight: start, EndHeight: h + 5000}, amount
	case fsm.MessageChangeParameterName:
		a, e := lib.NewAny(&lib.UInt64Wrapper{Value: 10000 + amount%5000})
		if e != nil {
			return nil, e
		}
		start := uint64(1)
		if h > 100 {
			start = h - 100
		}
		sc.Msg = &fsm.MessageChangeParameter{ParameterSpace: fsm.ParamSpaceFee, ParameterKey: fsm.ParamPauseFee, ParameterValue: a, StartHeight: start, EndHeight: h + 5000, Signer: me}
	default:
		return nil, fmt.Errorf("unknown scenario type %s", mt)
	}
	return sc, nil
}

// CloneMsg deep-copies a message through its wire form.
func CloneMsg(m lib.MessageI) lib.MessageI {
	n := m.New()
	if e := lib.Unmarshal(MustMarshal(m), n); e != nil {
		panic(e)
	}
	return n
}
