package chainsim

// FullState: a raw decode of every state key that the staking / supply oracles of C12, C13 and C04 need (accounts,
// pools, validators, unstaking and paused markers, supply, parameters, non-signer counters). Independent of the state
// machine's getters and caches. (rawstate.go holds a sibling decoder for the order-book / dex oracles.)

import (
	"encoding/binary"
	"fmt"
	"math/big"
	"sort"

	"github.com/canopy-network/canopy/fsm"
	"github.com/canopy-network/canopy/lib"
)

// Marker is a deferred-action index entry (unstaking or paused): "at Height do something with Address".
type Marker struct {
	Height  uint64
	Address string // raw 20 bytes
}

// FullState is the state decoded from a raw key/value scan.
type FullState struct {
	Accounts   map[string]*fsm.Account   // by raw address
	Pools      map[uint64]*fsm.Pool      // by id
	Validators map[string]*fsm.Validator // by raw address
	ValOrder   []string                  // validator addresses in key order
	Unstaking  []Marker
	Paused     []Marker
	Supply     *fsm.Supply
	ValParams  *fsm.ValidatorParams
	ConsParams *fsm.ConsensusParams
	GovParams  *fsm.GovernanceParams
	FeeParams  *fsm.FeeParams
	NonSigners map[string]*fsm.NonSigner
	Retired    map[uint64]bool     // retired committees (prefix 14)
	Committees *lib.CommitteesData // committee data list (prefix 12), nil when absent
	Other      map[byte]int        // number of keys under the remaining prefixes
}

// DecodeFull decodes a scan (Chain.Scan) into a FullState.
func DecodeFull(scan map[string][]byte) (*FullState, error) {
	rs := &FullState{Accounts: map[string]*fsm.Account{}, Pools: map[uint64]*fsm.Pool{}, Validators: map[string]*fsm.Validator{},
		NonSigners: map[string]*fsm.NonSigner{}, Retired: map[uint64]bool{}, Other: map[byte]int{}, Supply: new(fsm.Supply)}
	keys := make([]string, 0, len(scan))
	for k := range scan {
		keys = append(keys, k)
	}
	sort.Strings(keys)
	for _, k := range keys {
		v := scan[k]
		segs, err := safeSegments([]byte(k))
		if err != nil || len(segs) == 0 || len(segs[0]) != 1 {
			return nil, fmt.Errorf("unexpected state key %x", k)
		}
		switch segs[0][0] {
		case 1:
			a := new(fsm.Account)
			if e := lib.Unmarshal(v, a); e != nil {
				return nil, e
			}
			if len(segs) != 2 {
				return nil, fmt.Errorf("account key shape %x", k)
			}
			a.Address = segs[1]
			rs.Accounts[string(segs[1])] = a
		case 2:
			p := new(fsm.Pool)
			if e := lib.Unmarshal(v, p); e != nil {
				return nil, e
			}
			if len(segs) != 2 || len(segs[1]) != 8 {
				return nil, fmt.Errorf("pool key shape %x", k)
			}
			p.Id = binary.BigEndian.Uint64(segs[1])
			rs.Pools[p.Id] = p
		case 3:
			val := new(fsm.Validator)
			if e := lib.Unmarshal(v, val); e != nil {
				return nil, e
			}
			if len(segs) != 2 {
				return nil, fmt.Errorf("validator key shape %x", k)
			}
			if string(val.Address) != string(segs[1]) {
				return nil, fmt.Errorf("validator record address %x stored under key address %x", val.Address, segs[1])
			}
			rs.Validators[string(segs[1])] = val
			rs.ValOrder = append(rs.ValOrder, string(segs[1]))
		case 5, 6:
			if len(segs) != 3 || len(segs[1]) != 8 {
				return nil, fmt.Errorf("marker key shape %x", k)
			}
			m := Marker{Height: binary.BigEndian.Uint64(segs[1]), Address: string(segs[2])}
			if segs[0][0] == 5 {
				rs.Unstaking = append(rs.Unstaking, m)
			} else {
				rs.Paused = append(rs.Paused, m)
			}
		case 7:
			if len(segs) != 2 {
				return nil, fmt.Errorf("param key shape %x", k)
			}
			var e error
			switch string(segs[1]) {
			case fsm.ParamPrefixVal:
				rs.ValParams = new(fsm.ValidatorParams)
				e = lib.Unmarshal(v, rs.ValParams)
			case fsm.ParamPrefixCons:
				rs.ConsParams = new(fsm.ConsensusParams)
				e = lib.Unmarshal(v, rs.ConsParams)
			case fsm.ParamPrefixGov:
				rs.GovParams = new(fsm.GovernanceParams)
				e = lib.Unmarshal(v, rs.GovParams)
			case fsm.ParamPrefixFee:
				rs.FeeParams = new(fsm.FeeParams)
				e = lib.Unmarshal(v, rs.FeeParams)
			}
			if e != nil {
				return nil, e
			}
		case 8:
			ns := new(fsm.NonSigner)
			if e := lib.Unmarshal(v, ns); e != nil {
				return nil, e
			}
			rs.NonSigners[string(segs[len(segs)-1])] = ns
		case 10:
			if e := lib.Unmarshal(v, rs.Supply); e != nil {
				return nil, e
			}
		case 12:
			rs.Committees = new(lib.CommitteesData)
			if e := lib.Unmarshal(v, rs.Committees); e != nil {
				return nil, e
			}
		case 14:
			if len(segs) != 2 || len(segs[1]) != 8 {
				return nil, fmt.Errorf("retired committee key shape %x", k)
			}
			rs.Retired[binary.BigEndian.Uint64(segs[1])] = true
		default:
			rs.Other[segs[0][0]]++
		}
	}
	return rs, nil
}

func safeSegments(k []byte) (segs [][]byte, err error) {
	defer func() {
		if r := recover(); r != nil {
			err = fmt.Errorf("corrupt key %x", k)
		}
	}()
	return lib.DecodeLengthPrefixed(k), nil
}

// FullState scans and decodes the chain's current working state.
func (c *Chain) FullState() (*FullState, error) {
	s, err := c.Scan()
	if err != nil {
		return nil, err
	}
	return DecodeFull(s)
}

// Big converts to a big integer.
func Big(u uint64) *big.Int { return new(big.Int).SetUint64(u) }

// SumBalances returns Σ account amounts, Σ pool amounts, Σ stakes as big integers.
func (rs *FullState) SumBalances() (accts, pools, stakes *big.Int) {
	accts, pools, stakes = new(big.Int), new(big.Int), new(big.Int)
	for _, a := range rs.Accounts {
		accts.Add(accts, Big(a.Amount))
	}
	for _, p := range rs.Pools {
		pools.Add(pools, Big(p.Amount))
	}
	for _, v := range rs.Validators {
		stakes.Add(stakes, Big(v.StakedAmount))
	}
	return
}
