package chainsim

import (
	"bytes"
	"fmt"
	"sync"

	"github.com/canopy-network/canopy/fsm"
	"github.com/canopy-network/canopy/lib"
	"github.com/canopy-network/canopy/lib/crypto"
	"github.com/canopy-network/canopy/store"
	"google.golang.org/protobuf/proto"

	"verif/h/keys"
)

/*
Two-chain glue (root chain <-> nested chain) on top of two chainsim chains, and really signed certificate-results
transactions. It re-states, outside of the controller package, exactly what the controller does between the two state
machines:

  - controller/result.go HandleDex:          which DexBatch / RootDexBatch a nested proposal certifies
  - controller/tx.go, controller/block.go:   the root DEX batch cached in the nested FSM before the block is applied
    (RCManager.GetDexBatch(root, rcBuildHeight, chain, false) = root FSM TimeMachine(rcBuildHeight).GetDexBatch(chain, true))
  - controller/result.go SendCertificateResultsTx: the certificate (without block) wrapped in a MessageCertificateResults
    transaction signed by the proposer, here with a REAL aggregate BLS signature of the root chain's committee for the
    nested chain, so that fsm.HandleMessageCertificateResults verifies it like in production.
*/

// maxKeyIndex bounds the search for the deterministic key behind a public key.
const maxKeyIndex = 64

var (
	blsMu    sync.Mutex
	blsByPub = map[string]crypto.PrivateKeyI{}
	blsNext  int
)

// blsKeyFor finds the deterministic BLS key (keys.BLS(i)) for a public key.
func blsKeyFor(pub []byte) (crypto.PrivateKeyI, bool) {
	blsMu.Lock()
	defer blsMu.Unlock()
	if k, ok := blsByPub[string(pub)]; ok {
		return k, true
	}
	for ; blsNext < maxKeyIndex; blsNext++ {
		k := keys.BLS(blsNext)
		p := k.PublicKey().Bytes()
		blsByPub[string(p)] = k
		if bytes.Equal(p, pub) {
			blsNext++
			return k, true
		}
	}
	return nil, false
}

// CertOpts tunes a certificate-results transaction.
type CertOpts struct {
	Height, RootHeight uint64 // view of the certificate (chain height of the committee, root height it was built on)
	BlockHash          []byte // default: 32 bytes derived from the heights
	ProposerIdx        int    // index into the committee (order of the validator set) of the proposer = transaction sender
	NonSigners         []int  // committee indexes that do not sign
	CorruptSig         bool   // flip a bit of the aggregate signature (the transaction must be rejected)
	Fee                uint64
	CreatedHeight      uint64 // default: current height of the chain the transaction is for
}

// SignedCertResultsTx builds a MessageCertificateResults transaction for this (root) chain carrying `results` of
// committee `committee`, with a real aggregate signature of that committee as of opts.RootHeight (the set
// fsm.HandleMessageCertificateResults loads). Results are cloned; the certificate carries no block.
func (c *Chain) SignedCertResultsTx(committee uint64, results *lib.CertificateResult, o CertOpts) ([]byte, *lib.QuorumCertificate, error) {
	vs, e := c.FSM.LoadCommittee(committee, o.RootHeight)
	if e != nil {
		return nil, nil, fmt.Errorf("load committee %d@%d: %v", committee, o.RootHeight, e)
	}
	if vs.ValidatorSet == nil || len(vs.ValidatorSet.ValidatorSet) == 0 {
		return nil, nil, fmt.Errorf("committee %d@%d is empty", committee, o.RootHeight)
	}
	members := vs.ValidatorSet.ValidatorSet
	if o.ProposerIdx < 0 || o.ProposerIdx >= len(members) {
		o.ProposerIdx = 0
	}
	proposer, ok := blsKeyFor(members[o.ProposerIdx].PublicKey)
	if !ok {
		return nil, nil, fmt.Errorf("no deterministic key for committee member %d", o.ProposerIdx)
	}
	res := proto.Clone(results).(*lib.CertificateResult)
	if res.RewardRecipients == nil || len(res.RewardRecipients.PaymentPercents) == 0 {
		res.RewardRecipients = &lib.RewardRecipients{PaymentPercents: []*lib.PaymentPercents{{Address: Addr(proposer), Percent: 100, ChainId: committee}}}
	}
	if res.SlashRecipients == nil {
		res.SlashRecipients = &lib.SlashRecipients{}
	}
	bh := o.BlockHash
	if bh == nil {
		bh = crypto.Hash([]byte(fmt.Sprintf("verif-block-%d-%d-%d", committee, o.Height, o.RootHeight)))
	}
	qc := &lib.QuorumCertificate{
		Header:      &lib.View{NetworkId: c.Cfg.NetworkID, ChainId: committee, Height: o.Height, RootHeight: o.RootHeight, Phase: lib.Phase_PRECOMMIT_VOTE},
		Results:     res,
		ResultsHash: res.Hash(),
		BlockHash:   bh,
		ProposerKey: proposer.PublicKey().Bytes(),
	}
	sb := qc.SignBytes()
	mk := vs.MultiKey.Copy()
	skip := map[int]bool{}
	for _, i := range o.NonSigners {
		skip[i] = true
	}
	for i, m := range members {
		if skip[i] {
			continue
		}
		k, ok := blsKeyFor(m.PublicKey)
		if !ok {
			return nil, nil, fmt.Errorf("no deterministic key for committee member %d", i)
		}
		if err := mk.AddSigner(k.Sign(sb), i); err != nil {
			return nil, nil, err
		}
	}
	sig, err := mk.AggregateSignatures()
	if err != nil {
		return nil, nil, err
	}
	if o.CorruptSig {
		sig = append([]byte(nil), sig...)
		sig[len(sig)-1] ^= 1
	}
	qc.Signature = &lib.AggregateSignature{Signature: sig, Bitmap: mk.Bitmap()}
	ch := o.CreatedHeight
	if ch == 0 {
		ch = c.Height()
	}
	tx, _, err := c.SignTx(proposer, &fsm.MessageCertificateResults{Qc: qc}, o.Fee, ch, "")
	if err != nil {
		return nil, nil, err
	}
	return tx, qc, nil
}

// TwoChain couples a root chain and a nested chain.
type TwoChain struct {
	Root, Nested *Chain
	RootID, NID  uint64
	lastRC       uint64 // last root height a nested block was built on (certificate root heights never decrease)
	last         *Chain // chain driven last (see Use)
}

// NewTwoChain wires two chains created by the caller (root: Opts.ChainID = rootID; nested: Opts.ChainID = nestedID and
// genesis Params.Consensus.RootChainId = rootID).
func NewTwoChain(root, nested *Chain) *TwoChain {
	return &TwoChain{Root: root, Nested: nested, RootID: root.Cfg.ChainId, NID: nested.Cfg.ChainId}
}

// Close releases both chains.
func (t *TwoChain) Close() { t.Root.Close(); t.Nested.Close() }

// Use must be called before driving chain c when the other chain was driven last: canopy's store keeps a process-wide block
// cache keyed by height only (one node per process in production); two chains in one process would read each other's blocks
// (LoadBlock(h-1) seeds the pseudo-random order of DEX execution and the last-block fields of the header).
func (t *TwoChain) Use(c *Chain) {
	if t.last != c {
		store.VerifPurgeBlockCache()
		t.last = c
	}
}

// RootBlock = Use(Root) + Root.Block(spec).
func (t *TwoChain) RootBlock(spec BlockSpec) (*Outcome, error) {
	t.Use(t.Root)
	return t.Root.Block(spec)
}

// RootDexBatchAt is what RCManager.GetDexBatch(root, rootHeight, nested, withPoints) answers: the root chain's LOCKED
// batch for the nested committee as of the root state at rootHeight (= state before root block rootHeight).
func (t *TwoChain) RootDexBatchAt(rootHeight uint64, withPoints bool) (*lib.DexBatch, error) {
	sm, e := t.Root.FSM.TimeMachine(rootHeight)
	if e != nil {
		return nil, e
	}
	if sm != t.Root.FSM {
		defer sm.Discard()
	}
	b, e := sm.GetDexBatch(t.NID, true, withPoints)
	if e != nil {
		return nil, e
	}
	// the answer crosses an RPC boundary in production: hand out a deep copy
	return proto.Clone(b).(*lib.DexBatch), nil
}

// NestedOutcome is the result of one nested block.
type NestedOutcome struct {
	*Outcome
	RCBuildHeight uint64
	RootBatch     *lib.DexBatch // the root batch the block was executed against (cached in the FSM)
	CertTx        []byte        // the certificate-results transaction for the root chain (nil when it could not be built)
	CertQC        *lib.QuorumCertificate
	Liveness      bool // the certificate orders the liveness fallback for the NEXT nested block
}

// NestedBlock builds, certifies and commits the next nested block on top of root height rcBuildHeight
// (0 = the root chain's current height; never below the previous one). It returns the certificate-results
// transaction the nested proposer would submit to the root chain; the caller decides when / whether the root includes it.
// extra lets the caller extend the certified results (orders, slash recipients) before they are hashed and signed.
func (t *TwoChain) NestedBlock(txs [][]byte, rcBuildHeight uint64, extra func(res *lib.CertificateResult, out *Outcome)) (*NestedOutcome, error) {
	if rcBuildHeight == 0 || rcBuildHeight > t.Root.Height() {
		rcBuildHeight = t.Root.Height()
	}
	if rcBuildHeight < t.lastRC {
		rcBuildHeight = t.lastRC
	}
	rootBatch, err := t.RootDexBatchAt(rcBuildHeight, false)
	if err != nil {
		return nil, err
	}
	t.Use(t.Nested)
	// controller/tx.go: the mempool FSM caches the root batch before ApplyBlock
	t.Nested.FSM.SetRootDexCache(proto.Clone(rootBatch).(*lib.DexBatch))
	out := t.Nested.Propose(BlockSpec{Txs: txs, RootHeight: rcBuildHeight})
	no := &NestedOutcome{Outcome: out, RCBuildHeight: rcBuildHeight, RootBatch: rootBatch}
	if out.Err != nil {
		return no, nil
	}
	// controller/result.go HandleDex on the post-block (uncommitted) nested state machine
	res := out.QC.Results
	sm := t.Nested.FSM
	balance, e := sm.GetPoolBalance(t.RootID + fsm.LiquidityPoolAddend)
	if e != nil {
		t.Nested.Abort()
		return nil, e
	}
	if balance != 0 {
		batch, e := sm.GetDexBatch(t.RootID, true)
		if e != nil {
			t.Nested.Abort()
			return nil, e
		}
		trigger := false
		if !batch.IsEmpty() {
			since := sm.Height() - batch.LockedHeight
			if trigger = since%lib.TriggerModuloBlocks == 0; trigger {
				res.DexBatch = batch.Copy()
			}
		}
		liveness := trigger && !batch.IsEmpty() && (sm.Height()-batch.LockedHeight) >= lib.LivenessFallbackBlocks
		rb, err := t.RootDexBatchAt(rcBuildHeight, liveness)
		if err != nil {
			t.Nested.Abort()
			return nil, err
		}
		rb.LivenessFallback = liveness
		res.RootDexBatch = rb
		no.Liveness = liveness
	}
	if extra != nil {
		extra(res, out)
	}
	// the certificate travels over the wire before anything reads it
	res = proto.Clone(res).(*lib.CertificateResult)
	out.QC.Results, out.QC.ResultsHash = res, res.Hash()
	out.QC.Header.RootHeight = rcBuildHeight
	// the certificate-results transaction for the root chain: signed by the root chain's committee for the nested chain
	tx, qc, err := t.Root.SignedCertResultsTx(t.NID, res, CertOpts{Height: out.Height, RootHeight: rcBuildHeight, BlockHash: out.Header.Hash})
	if err == nil {
		no.CertTx, no.CertQC = tx, qc
		// index the really signed certificate on the nested chain too (with the block attached)
		out.QC.ProposerKey, out.QC.Signature = qc.ProposerKey, qc.Signature
	}
	if err := t.Nested.Commit(out); err != nil {
		return nil, err
	}
	t.lastRC = rcBuildHeight
	return no, nil
}
