package chainsim

import (
	"testing"

	"github.com/canopy-network/canopy/fsm"
	"github.com/canopy-network/canopy/lib"

	"verif/h/keys"
)

func newTwo(t *testing.T, rootPool, nestedPool uint64) *TwoChain {
	vals := []ValSpec{}
	for i := 0; i < 4; i++ {
		vals = append(vals, ValSpec{Key: i, OutputKey: -1, Stake: 1_000_000, Committees: []uint64{1, 2}})
	}
	accts := []AcctSpec{{1, 10, 1_000_000_000}, {1, 11, 1_000_000_000}}
	pts := []*lib.PoolPoints{{Address: Addr(keys.Ed(10)), Points: 1000}}
	rg := BuildGenesis(1, vals, accts, []*fsm.Pool{{Id: 2 + fsm.LiquidityPoolAddend, Amount: rootPool, Points: pts, TotalPoolPoints: 1000}}, nil)
	root, err := New(Opts{ChainID: 1, Genesis: rg})
	if err != nil {
		t.Fatal(err)
	}
	np := fsm.DefaultParams()
	np.Consensus.RootChainId = 1
	ng := BuildGenesis(2, nil, accts, []*fsm.Pool{{Id: 1 + fsm.LiquidityPoolAddend, Amount: nestedPool, Points: pts, TotalPoolPoints: 1000}}, np)
	nested, err := New(Opts{ChainID: 2, Genesis: ng})
	if err != nil {
		t.Fatal(err)
	}
	return NewTwoChain(root, nested)
}

func TestTwoChainSmoke(t *testing.T) {
	tc := newTwo(t, 1_000_000, 2_000_000)
	defer tc.Close()
	var pending [][]byte
	for i := 0; i < 12; i++ {
		var ntx, rtx [][]byte
		if i == 2 {
			tx, _, err := tc.Nested.SignTx(keys.Ed(10), &fsm.MessageDexLimitOrder{ChainId: 1, AmountForSale: 10_000, RequestedAmount: 1, Address: Addr(keys.Ed(10))}, 0, tc.Nested.Height(), "")
			if err != nil {
				t.Fatal(err)
			}
			ntx = append(ntx, tx)
			tx, _, err = tc.Root.SignTx(keys.Ed(11), &fsm.MessageDexLimitOrder{ChainId: 2, AmountForSale: 5_000, RequestedAmount: 1_000_000, Address: Addr(keys.Ed(11))}, 0, tc.Root.Height(), "")
			if err != nil {
				t.Fatal(err)
			}
			rtx = append(rtx, tx)
		}
		no, err := tc.NestedBlock(ntx, 0, nil)
		if err != nil || no.Err != nil {
			t.Fatalf("nested block: %v %v", err, no.Err)
		}
		for _, f := range no.Results.Failed {
			t.Fatalf("nested failed tx: %v", f.Error)
		}
		if no.CertTx != nil {
			pending = append(pending, no.CertTx)
		}
		out, err := tc.RootBlock(BlockSpec{Txs: append(rtx, pending...)})
		if err != nil || out.Err != nil {
			t.Fatalf("root block: %v %v", err, out.Err)
		}
		for _, f := range out.Results.Failed {
			t.Logf("root failed tx: %v", f.Error)
		}
		pending = nil
		rr, _ := tc.Root.Raw()
		nr, _ := tc.Nested.Raw()
		if err := rr.SupplyIdentity(); err != nil {
			t.Fatal(err)
		}
		if err := nr.SupplyIdentity(); err != nil {
			t.Fatal(err)
		}
		t.Logf("i=%d root h=%d pool=%d hold=%d locked=%v | nested h=%d pool=%d hold=%d locked=%v ev=%d/%d", i, tc.Root.Height(),
			rr.PoolAmount(2+fsm.LiquidityPoolAddend), rr.PoolAmount(2+fsm.HoldingPoolAddend), brief(rr.Locked[2]),
			tc.Nested.Height(), nr.PoolAmount(1+fsm.LiquidityPoolAddend), nr.PoolAmount(1+fsm.HoldingPoolAddend), brief(nr.Locked[1]), len(out.Results.Events), len(no.Results.Events))
	}
}

func brief(b *lib.DexBatch) string {
	if b == nil {
		return "-"
	}
	return lib.BytesToString(b.ReceiptHash)[:min(6, len(lib.BytesToString(b.ReceiptHash)))] + "/" + string(rune('0'+len(b.Orders))) + "o/" + string(rune('0'+len(b.Receipts))) + "r@" + string(rune('0'+b.LockedHeight%10))
}
