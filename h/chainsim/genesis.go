package chainsim

import (
	"github.com/canopy-network/canopy/fsm"
	"github.com/canopy-network/canopy/lib/crypto"

	"verif/h/keys"
)

// ValSpec describes one genesis validator.
type ValSpec struct {
	Key        int // index into keys.BLS (operator / consensus key)
	OutputKey  int // -1: output = operator address (custodial); otherwise index into keys.Ed for the output address
	Stake      uint64
	Committees []uint64 // default {chainID}
	Delegate   bool
	Compound   bool
}

// AcctSpec describes one genesis account (key kind: 0 BLS, 1 ed25519, 2 secp256k1, 3 eth).
type AcctSpec struct {
	Kind, Key int
	Amount    uint64
}

// Addr returns the address of a key.
func Addr(pk crypto.PrivateKeyI) []byte { return pk.PublicKey().Address().Bytes() }

// BuildGenesis assembles a genesis state from specs; params default to fsm.DefaultParams().
func BuildGenesis(chainID uint64, vals []ValSpec, accts []AcctSpec, pools []*fsm.Pool, params *fsm.Params) *fsm.GenesisState {
	if params == nil {
		params = fsm.DefaultParams()
	}
	g := &fsm.GenesisState{Time: 1_700_000_000_000_000, Params: params, Pools: pools}
	for _, v := range vals {
		k := keys.BLS(v.Key)
		out := Addr(k)
		if v.OutputKey >= 0 {
			out = Addr(keys.Ed(v.OutputKey))
		}
		cs := v.Committees
		if cs == nil {
			cs = []uint64{chainID}
		}
		g.Validators = append(g.Validators, &fsm.Validator{
			Address: Addr(k), PublicKey: k.PublicKey().Bytes(), NetAddress: "tcp://127.0.0.1", StakedAmount: v.Stake,
			Committees: cs, Output: out, Delegate: v.Delegate, Compound: v.Compound,
		})
	}
	for _, a := range accts {
		g.Accounts = append(g.Accounts, &fsm.Account{Address: Addr(keys.Kind(a.Kind, a.Key)), Amount: a.Amount})
	}
	return g
}
