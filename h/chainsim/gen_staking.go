package chainsim

// State-aware history generator on top of Chain (used by C12, C13, C04).
//
// A World is a chain plus a light model of who owns what: a pool of operator keys (keys.BLS(i), named v<i>), a pool of
// output keys (keys.Ed(i), named o<i>) and plain accounts (keys.Ed(100+i), named a<i>). After every block the model is
// refreshed from the real state (validator records, balances, parameters), so that the next block's transactions are
// mostly valid; invalid ones are generated on purpose and labelled as such. All decisions come from a Src (rapid draws).
//
// Input-domain restrictions that mirror what real callers produce (each one is an "assumption" of the checks):
//   - the chain's own committee is never empty: "pillar" validators are never targeted by pause/unstake/slash and the
//     minimum stake is never raised above their stake (a block needs a quorum of the committee; BeginBlock loads it);
//   - the signers of a certificate hold at least MinimumMaj23 of the committee's power;
//   - a double-signer entry (key, height) names a key that was a committee member at that height, is listed at most once
//     per certificate, not in the previous certificate and not yet in the double-signer index (bft.ProcessDSE only emits
//     such entries: it derives them from committee signatures, de-duplicates heights and asks IsValidDoubleSigner, and the
//     RPC answer also consults the last certificate);
//   - reward recipients satisfy RewardRecipients.CheckBasic (1..100 entries, <=100 % per chain, 20-byte addresses).

import (
	"bytes"
	"fmt"
	"sort"
	"strings"

	"github.com/canopy-network/canopy/fsm"
	"github.com/canopy-network/canopy/lib"
	"github.com/canopy-network/canopy/lib/crypto"
	"pgregory.net/rapid"

	"verif/h/keys"
)

// Src is the source of all generator decisions.
type Src interface {
	// Int returns a value in [lo, hi].
	Int(label string, lo, hi int) int
}

type rapidSrc struct{ t *rapid.T }

func (r rapidSrc) Int(label string, lo, hi int) int {
	if hi <= lo {
		return lo
	}
	return rapid.IntRange(lo, hi).Draw(r.t, label)
}

// Rapid adapts a *rapid.T to Src.
func Rapid(t *rapid.T) Src { return rapidSrc{t} }

// OpKind names a transaction kind of the generator.
type OpKind string

const (
	OpStake     OpKind = "stake"
	OpEditStake OpKind = "edit-stake"
	OpPause     OpKind = "pause"
	OpUnpause   OpKind = "unpause"
	OpUnstake   OpKind = "unstake"
	OpSend      OpKind = "send"
	OpParam     OpKind = "change-param"
	// OpCertResults: a really signed certificate-results transaction of committee 2 (see CertResultsTx); weight 0 by default
	OpCertResults OpKind = "certificate-results"
)

// PlannedTx is one generated transaction.
type PlannedTx struct {
	Kind    OpKind
	Bytes   []byte
	Hash    string
	Desc    string // readable rendering
	Invalid string // non-empty: generated invalid on purpose, with the reason
	OK      bool   // filled after the block: included
	Err     string // filled after the block: failure reason
}

// ExtraOp lets a property add transaction kinds (C04 adds the non-staking message types).
type ExtraOp struct {
	Kind   OpKind
	Weight int
	Gen    func(w *World) *PlannedTx
}

// WorldOpts configures a World.
type WorldOpts struct {
	ChainID     uint64
	Committees  []uint64  // committee ids used by stake/edit-stake; must contain ChainID; default {ChainID, 2, 3}
	Pillars     int       // validators v0..v(Pillars-1): never targeted; default 2
	PillarStake uint64    // default 1_000_000
	Vals        []ValSpec // further genesis validators (Key >= Pillars, Key < KeyPool)
	KeyPool     int       // operator keys v0..v(KeyPool-1); default 10
	OutPool     int       // output keys o0..; default 4
	AcctPool    int       // plain accounts a0..; default 4
	Funds       uint64    // genesis balance of every operator/output/plain account; default 10^12
	ExtraAccts  []AcctSpec
	Pools       []*fsm.Pool
	Params      *fsm.Params // default StakingParams()
	Mutate      func(*lib.Config)
	Weights     map[OpKind]int // default DefaultStakingWeights
	Extra       []ExtraOp
	MaxTxs      int  // per block, default 4
	NoSlash     bool // do not generate double-signers (open finding exclusion)
	NoParams    bool // never generate parameter changes
	// RootAhead: while the chain is NOT its own root (Params.Consensus.RootChainId != ChainID) its certificates carry
	// RootHeight = height + RootAhead (the root chain is ahead of the nested chain); once it is its own root they carry
	// the chain's own height, as the controller does. RootSwitch adds rootChainID changes to the parameter mix.
	RootAhead  uint64
	RootBehind uint64 // instead of RootAhead: the root chain is younger, RootHeight = max(1, height - RootBehind)
	RootSwitch bool
	// CommitteeParamWeight > 0 adds changes of MaxCommitteeSize / MaximumDelegatesPerCommittee to the parameter mix
	// (weight relative to the 16 staking parameter slots)
	CommitteeParamWeight int
	// NoDelegateRestake: a key that ever was a member of the own committee never stakes again as a delegate (exclusion of
	// the input class of open finding KF-C12-slash-delegate-tallies); OnExclude is called whenever that changes a draw.
	NoDelegateRestake bool
	NoDaoZero         bool // never set gov/daoRewardPercentage to 0 (open finding KF-C12-dao-percent-zero)
	OnExclude         func(id string)
	MutateGen         func(*fsm.GenesisState)
}

// StakingParams are the default parameters with short deferred periods, so that deferred actions fire inside a history.
func StakingParams() *fsm.Params {
	p := fsm.DefaultParams()
	p.Validator.UnstakingBlocks = 3
	p.Validator.DelegateUnstakingBlocks = 2
	p.Validator.MaxPauseBlocks = 3
	p.Validator.NonSignWindow = 4
	p.Validator.MaxNonSign = 2
	p.Validator.NonSignSlashPercentage = 10
	return p
}

// HugeCaps are "no cap" values a governance proposal may choose for the committee caps.
var HugeCaps = []uint64{1 << 31, 1 << 32, 1<<63 - 1, 1 << 63, 1<<64 - 1}

// DefaultStakingWeights biases the mix towards staking operations.
var DefaultStakingWeights = map[OpKind]int{OpStake: 6, OpEditStake: 5, OpPause: 3, OpUnpause: 2, OpUnstake: 3, OpSend: 1, OpParam: 2}

// World = chain + light ownership model + generator.
type World struct {
	C    *Chain
	Src  Src
	Opts WorldOpts

	Vals      map[string]*fsm.Validator // by address, refreshed after every block
	ValAddrs  []string                  // sorted addresses of Vals
	Params    *fsm.Params
	Committee []*lib.ConsensusValidator // own committee at the current height (signs the next block)
	Power     lib.ValidatorSet

	keyByAddr map[string]int    // operator address -> index
	nameOf    map[string]string // any known address -> short name
	Lazy      map[string]bool   // operator addresses that currently do not sign
	CommAt    map[uint64][]int  // height -> operator key indexes in the own committee at that height
	nestedH   uint64            // last certificate height used for committee 2 (CertResultsTx)
	nestedRH  uint64            // last root height used for committee 2
	dsUsed    map[string]bool   // "addr/height" already submitted as double signer
	lastDS    map[string]bool   // entries of the previous certificate

	Stats   map[string]int // counters: "<kind>.ok", "<kind>.fail", "<kind>.invalid-ok", "event.<type>", ...
	History []string       // one readable line per block
}

func (o *WorldOpts) defaults() {
	if o.ChainID == 0 {
		o.ChainID = 1
	}
	if o.Committees == nil {
		o.Committees = []uint64{o.ChainID, 2, 3}
		if o.ChainID == 2 {
			o.Committees = []uint64{2, 1, 3}
		}
	}
	if o.Pillars == 0 {
		o.Pillars = 2
	}
	if o.PillarStake == 0 {
		o.PillarStake = 1_000_000
	}
	if o.KeyPool == 0 {
		o.KeyPool = 10
	}
	if o.OutPool == 0 {
		o.OutPool = 4
	}
	if o.AcctPool == 0 {
		o.AcctPool = 4
	}
	if o.Funds == 0 {
		o.Funds = 1_000_000_000_000
	}
	if o.Params == nil {
		o.Params = StakingParams()
	}
	if o.Weights == nil {
		o.Weights = DefaultStakingWeights
	}
	if o.MaxTxs == 0 {
		o.MaxTxs = 4
	}
}

// OpKey / OutKey / AcctKey return the private keys behind the short names.
func OpKey(i int) crypto.PrivateKeyI   { return keys.BLS(i) }
func OutKey(i int) crypto.PrivateKeyI  { return keys.Ed(i) }
func AcctKey(i int) crypto.PrivateKeyI { return keys.Ed(100 + i) }

// NewWorld builds the genesis and the chain.
func NewWorld(src Src, o WorldOpts) (*World, error) {
	o.defaults()
	var vals []ValSpec
	for i := 0; i < o.Pillars; i++ {
		vals = append(vals, ValSpec{Key: i, OutputKey: -1, Stake: o.PillarStake, Committees: []uint64{o.ChainID}})
	}
	vals = append(vals, o.Vals...)
	var accts []AcctSpec
	for i := 0; i < o.KeyPool; i++ {
		accts = append(accts, AcctSpec{Kind: 0, Key: i, Amount: o.Funds})
	}
	for i := 0; i < o.OutPool; i++ {
		accts = append(accts, AcctSpec{Kind: 1, Key: i, Amount: o.Funds})
	}
	for i := 0; i < o.AcctPool; i++ {
		accts = append(accts, AcctSpec{Kind: 1, Key: 100 + i, Amount: o.Funds})
	}
	accts = append(accts, o.ExtraAccts...)
	g := BuildGenesis(o.ChainID, vals, accts, o.Pools, o.Params)
	if o.MutateGen != nil {
		o.MutateGen(g)
	}
	c, err := New(Opts{ChainID: o.ChainID, Genesis: g, Mutate: o.Mutate})
	if err != nil {
		return nil, err
	}
	w := &World{C: c, Src: src, Opts: o, keyByAddr: map[string]int{}, nameOf: map[string]string{}, Lazy: map[string]bool{},
		CommAt: map[uint64][]int{}, dsUsed: map[string]bool{}, lastDS: map[string]bool{}, Stats: map[string]int{}}
	for i := 0; i < o.KeyPool; i++ {
		a := string(Addr(OpKey(i)))
		w.keyByAddr[a] = i
		w.nameOf[a] = fmt.Sprintf("v%d", i)
	}
	for i := 0; i < o.OutPool; i++ {
		w.nameOf[string(Addr(OutKey(i)))] = fmt.Sprintf("o%d", i)
	}
	for i := 0; i < o.AcctPool; i++ {
		w.nameOf[string(Addr(AcctKey(i)))] = fmt.Sprintf("a%d", i)
	}
	if err = w.Refresh(); err != nil {
		c.Close()
		return nil, err
	}
	return w, nil
}

// Close releases the chain.
func (w *World) Close() { w.C.Close() }

// Name renders an address with its short name when known.
func (w *World) Name(addr []byte) string {
	if n, ok := w.nameOf[string(addr)]; ok {
		return n
	}
	return fmt.Sprintf("%x", addr[:min(4, len(addr))])
}

// Refresh re-reads the model from the chain's committed state.
func (w *World) Refresh() error {
	vs, err := w.C.FSM.GetValidators()
	if err != nil {
		return err
	}
	w.Vals = map[string]*fsm.Validator{}
	w.ValAddrs = w.ValAddrs[:0]
	for _, v := range vs {
		w.Vals[string(v.Address)] = v
		w.ValAddrs = append(w.ValAddrs, string(v.Address))
	}
	sort.Strings(w.ValAddrs)
	if w.Params, err = w.C.FSM.GetParams(); err != nil {
		return err
	}
	h := w.C.Height()
	w.Power = w.C.Committee()
	w.Committee = nil
	if w.Power.ValidatorSet != nil {
		w.Committee = w.Power.ValidatorSet.ValidatorSet
	}
	var idx []int
	for _, m := range w.Committee {
		pk, e := crypto.NewPublicKeyFromBytes(m.PublicKey)
		if e != nil {
			continue
		}
		if i, ok := w.keyByAddr[string(pk.Address().Bytes())]; ok {
			idx = append(idx, i)
		}
	}
	w.CommAt[h] = idx
	return nil
}

// Balance reads an account balance from the committed state.
func (w *World) Balance(addr []byte) uint64 {
	b, _ := w.C.FSM.GetAccountBalance(crypto.NewAddress(addr))
	return b
}

func (w *World) isPillar(addr string) bool {
	i, ok := w.keyByAddr[addr]
	return ok && i < w.Opts.Pillars
}

// pickVal picks an existing non-pillar validator satisfying f; nil when none.
func (w *World) pickVal(label string, f func(*fsm.Validator) bool) *fsm.Validator {
	var c []*fsm.Validator
	for _, a := range w.ValAddrs {
		if w.isPillar(a) {
			continue
		}
		if v := w.Vals[a]; f == nil || f(v) {
			c = append(c, v)
		}
	}
	if len(c) == 0 {
		return nil
	}
	return c[w.Src.Int(label, 0, len(c)-1)]
}

// freeKey picks an operator key index that is not a validator right now; -1 when none.
func (w *World) freeKey() int {
	var c []int
	for i := w.Opts.Pillars; i < w.Opts.KeyPool; i++ {
		if _, ok := w.Vals[string(Addr(OpKey(i)))]; !ok {
			c = append(c, i)
		}
	}
	if len(c) == 0 {
		return -1
	}
	return c[w.Src.Int("freekey", 0, len(c)-1)]
}

// everMember reports whether operator key k was ever a member of the own committee.
func (w *World) everMember(k int) bool {
	for _, ks := range w.CommAt {
		for _, x := range ks {
			if x == k {
				return true
			}
		}
	}
	return false
}

// signerFor returns a private key authorised for the validator (operator or, when non-custodial, output) and its name.
func (w *World) signerFor(v *fsm.Validator, wantOutput bool) (crypto.PrivateKeyI, string) {
	if wantOutput && !bytes.Equal(v.Output, v.Address) {
		for i := 0; i < w.Opts.OutPool; i++ {
			if bytes.Equal(Addr(OutKey(i)), v.Output) {
				return OutKey(i), "out"
			}
		}
	}
	if i, ok := w.keyByAddr[string(v.Address)]; ok {
		return OpKey(i), "op"
	}
	return AcctKey(0), "stranger"
}

// StakeAmount draws a stake from {1..9, min, min+-1, large}.
func (w *World) StakeAmount(delegate bool) uint64 {
	minStake := w.Params.Validator.MinimumStakeForValidators
	if delegate {
		minStake = w.Params.Validator.MinimumStakeForDelegates
	}
	switch w.Src.Int("amtclass", 0, 9) {
	case 0, 1, 2:
		return uint64(w.Src.Int("amt19", 1, 9))
	case 3, 4:
		return max(minStake, 1)
	case 5:
		return minStake + 1
	case 6:
		if minStake > 1 {
			return minStake - 1
		}
		return 1
	case 7:
		return uint64(w.Src.Int("amtmid", 10, 200))
	default:
		return uint64(w.Src.Int("amtlarge", 1000, 900_000))
	}
}

func (w *World) committeesDraw() []uint64 {
	all := w.Opts.Committees
	var out []uint64
	// the own chain is listed most of the time so that the validator takes part in the committee
	for i, c := range all {
		p := 4
		if i == 0 {
			p = 8
		}
		if w.Src.Int("cmt", 0, 9) < p {
			out = append(out, c)
		}
	}
	if len(out) == 0 {
		out = []uint64{all[w.Src.Int("cmt1", 0, len(all)-1)]}
	}
	if w.Src.Int("cmtrev", 0, 3) == 0 { // order is free in the message
		for i, j := 0, len(out)-1; i < j; i, j = i+1, j-1 {
			out[i], out[j] = out[j], out[i]
		}
	}
	return out
}

func (w *World) fee(kind OpKind) uint64 {
	f := w.Params.Fee
	switch kind {
	case OpStake:
		return f.StakeFee
	case OpEditStake:
		return f.EditStakeFee
	case OpPause:
		return f.PauseFee
	case OpUnpause:
		return f.UnpauseFee
	case OpUnstake:
		return f.UnstakeFee
	case OpParam:
		return f.ChangeParameterFee
	default:
		return f.SendFee
	}
}

// Tx signs a message into a PlannedTx.
func (w *World) Tx(kind OpKind, pk crypto.PrivateKeyI, msg lib.MessageI, fee uint64, desc, invalid string) *PlannedTx {
	bz, _, err := w.C.SignTx(pk, msg, fee, w.C.Height(), "")
	if err != nil {
		panic(err)
	}
	return &PlannedTx{Kind: kind, Bytes: bz, Hash: crypto.HashString(bz), Desc: desc, Invalid: invalid}
}

func cstr(cs []uint64) string {
	s := make([]string, len(cs))
	for i, c := range cs {
		s[i] = fmt.Sprint(c)
	}
	return strings.Join(s, ",")
}

func b2i(b bool) int {
	if b {
		return 1
	}
	return 0
}

func (w *World) genStake() *PlannedTx {
	k := w.freeKey()
	invalid := ""
	if k < 0 || w.Src.Int("stake-existing", 0, 19) == 0 {
		v := w.pickVal("stake-dup", nil)
		if v == nil {
			return nil
		}
		k, invalid = w.keyByAddr[string(v.Address)], "validator exists"
	}
	op := OpKey(k)
	delegate := w.Src.Int("delegate", 0, 9) < 3
	if delegate && w.Opts.NoDelegateRestake && w.everMember(k) {
		delegate = false
		if w.Opts.OnExclude != nil {
			w.Opts.OnExclude("KF-C12-slash-delegate-tallies")
		}
	}
	out, signer, signerName := Addr(op), op, "op"
	if w.Src.Int("custodial", 0, 9) < 4 {
		oi := w.Src.Int("outkey", 0, w.Opts.OutPool-1)
		out = Addr(OutKey(oi))
		if w.Src.Int("signer", 0, 1) == 1 {
			signer, signerName = OutKey(oi), "out"
		}
	}
	amt := w.StakeAmount(delegate)
	minStake := w.Params.Validator.MinimumStakeForValidators
	if delegate {
		minStake = w.Params.Validator.MinimumStakeForDelegates
	}
	if amt < minStake && invalid == "" {
		invalid = "below minimum"
	}
	if w.Src.Int("stranger", 0, 29) == 0 {
		signer, signerName = AcctKey(0), "stranger"
		if invalid == "" {
			invalid = "unauthorized signer"
		}
	}
	net := "tcp://10.0.0.1"
	if delegate {
		net = ""
	}
	cs := w.committeesDraw()
	msg := &fsm.MessageStake{PublicKey: op.PublicKey().Bytes(), Amount: amt, Committees: cs, NetAddress: net, OutputAddress: out,
		Delegate: delegate, Compound: w.Src.Int("compound", 0, 1) == 1}
	d := fmt.Sprintf("stake v%d amt=%d deleg=%d out=%s c=[%s] comp=%d by=%s", k, amt, b2i(delegate), w.Name(out), cstr(cs), b2i(msg.Compound), signerName)
	return w.Tx(OpStake, signer, msg, w.fee(OpStake), d, invalid)
}

func (w *World) genEditStake() *PlannedTx {
	invalid := ""
	v := w.pickVal("edit", func(v *fsm.Validator) bool { return v.UnstakingHeight == 0 })
	if v == nil || w.Src.Int("edit-unstaking", 0, 14) == 0 {
		if u := w.pickVal("edit-u", func(v *fsm.Validator) bool { return v.UnstakingHeight != 0 }); u != nil {
			v, invalid = u, "unstaking"
		}
	}
	if v == nil {
		return nil
	}
	amt := v.StakedAmount
	switch w.Src.Int("editamt", 0, 5) {
	case 0, 1: // unchanged
	case 2:
		if amt > 1 {
			amt-- // lower amounts are accepted and ignored
		}
	case 3:
		amt += uint64(w.Src.Int("up19", 1, 9))
	case 4:
		amt += uint64(w.Src.Int("upbig", 10, 100_000))
	default:
		amt = max(amt, w.StakeAmount(v.Delegate))
	}
	cs := v.Committees
	if w.Src.Int("editc", 0, 9) < 6 {
		cs = w.committeesDraw()
	}
	out := v.Output
	signer, signerName := w.signerFor(v, w.Src.Int("signer", 0, 1) == 1)
	if w.Src.Int("editout", 0, 9) == 0 {
		out = Addr(OutKey(w.Src.Int("outkey", 0, w.Opts.OutPool-1)))
		if !bytes.Equal(out, v.Output) && signerName != "out" && !bytes.Equal(v.Output, v.Address) && invalid == "" {
			invalid = "only the output key may change the output"
		}
	}
	net := v.NetAddress
	if v.Delegate {
		net = "" // a delegate has no net address (genesis records may carry one)
	} else if w.Src.Int("editnet", 0, 4) == 0 {
		net = "tcp://10.0.0.2"
	}
	msg := &fsm.MessageEditStake{Address: v.Address, Amount: amt, Committees: cs, NetAddress: net, OutputAddress: out, Compound: w.Src.Int("compound", 0, 1) == 1}
	d := fmt.Sprintf("edit %s amt=%d->%d c=[%s]->[%s] out=%s comp=%d by=%s", w.Name(v.Address), v.StakedAmount, amt, cstr(v.Committees), cstr(cs), w.Name(out), b2i(msg.Compound), signerName)
	return w.Tx(OpEditStake, signer, msg, w.fee(OpEditStake), d, invalid)
}

func (w *World) genSimple(kind OpKind) *PlannedTx {
	var good, bad func(*fsm.Validator) bool
	switch kind {
	case OpPause:
		good = func(v *fsm.Validator) bool { return v.MaxPausedHeight == 0 && v.UnstakingHeight == 0 && !v.Delegate }
	case OpUnpause:
		good = func(v *fsm.Validator) bool { return v.MaxPausedHeight != 0 && v.UnstakingHeight == 0 }
	default:
		good = func(v *fsm.Validator) bool { return v.UnstakingHeight == 0 }
	}
	bad = func(v *fsm.Validator) bool { return !good(v) }
	invalid := ""
	var v *fsm.Validator
	if kind == OpUnstake && w.Src.Int("unstake-lazy", 0, 1) == 0 {
		// a validator that is missing certificates of the current non-sign window leaves before the window rolls over
		v = w.pickVal("unstake-lazy-v", func(v *fsm.Validator) bool { return good(v) && w.Lazy[string(v.Address)] })
	}
	if v == nil {
		v = w.pickVal(string(kind), good)
	}
	if v == nil || w.Src.Int("wrongstate", 0, 11) == 0 {
		if b := w.pickVal(string(kind)+"-bad", bad); b != nil {
			v, invalid = b, "wrong status"
		}
	}
	if v == nil {
		return nil
	}
	signer, signerName := w.signerFor(v, w.Src.Int("signer", 0, 1) == 1)
	var msg lib.MessageI
	switch kind {
	case OpPause:
		msg = &fsm.MessagePause{Address: v.Address}
	case OpUnpause:
		msg = &fsm.MessageUnpause{Address: v.Address}
	default:
		msg = &fsm.MessageUnstake{Address: v.Address}
	}
	return w.Tx(kind, signer, msg, w.fee(kind), fmt.Sprintf("%s %s by=%s", kind, w.Name(v.Address), signerName), invalid)
}

func (w *World) genSend() *PlannedTx {
	from := AcctKey(w.Src.Int("from", 0, w.Opts.AcctPool-1))
	var to []byte
	if w.Src.Int("to", 0, 1) == 0 {
		to = Addr(OpKey(w.Src.Int("tov", 0, w.Opts.KeyPool-1)))
	} else {
		to = Addr(OutKey(w.Src.Int("too", 0, w.Opts.OutPool-1)))
	}
	amt := uint64(w.Src.Int("sendamt", 1, 1_000_000))
	msg := &fsm.MessageSend{FromAddress: Addr(from), ToAddress: to, Amount: amt}
	return w.Tx(OpSend, from, msg, w.fee(OpSend), fmt.Sprintf("send %s->%s %d", w.Name(Addr(from)), w.Name(to), amt), "")
}

// ParamChange describes one governance parameter change.
type ParamChange struct {
	Space, Key string
	U          uint64
	S          string
	IsString   bool
}

// StakingParamChange draws a staking-relevant parameter change.
func (w *World) StakingParamChange() ParamChange {
	vp := w.Params.Validator
	u := func(key string, v uint64) ParamChange { return ParamChange{Space: fsm.ParamSpaceVal, Key: key, U: v} }
	pick := func(label string, vs ...uint64) uint64 { return vs[w.Src.Int(label, 0, len(vs)-1)] }
	if w.Opts.RootSwitch && w.Src.Int("rootswitch", 0, 3) == 0 {
		to := w.Opts.ChainID // become the own root
		if w.Params.Consensus.RootChainId == w.Opts.ChainID {
			to = 1 // go (back) under chain 1
		}
		return ParamChange{Space: fsm.ParamSpaceCons, Key: fsm.ParamRootChainId, U: to}
	}
	switch x := w.Src.Int("param", 0, 17+w.Opts.CommitteeParamWeight); {
	case x >= 18:
		// committee shape (C13): caps around the current population size
		n := uint64(len(w.ValAddrs))
		if w.Src.Int("capkind", 0, 2) == 0 {
			return u(fsm.ParamMaximumDelegatesPerCommittee, pick("maxd", 0, 1, 2, 3, n, HugeCaps[w.Src.Int("maxd-huge", 0, len(HugeCaps)-1)]))
		}
		return u(fsm.ParamMaxCommitteeSize, pick("maxs", 1, 2, 3, max(n/2, 1), max(n, 2)-1, n+1, 100, HugeCaps[w.Src.Int("maxs-huge", 0, len(HugeCaps)-1)]))
	case x >= 16:
		// the chain announces its own retirement: the controller then stamps Results.Retired on the chain's own certificates
		return ParamChange{Space: fsm.ParamSpaceCons, Key: fsm.ParamRetired, U: pick("retired", 0, 1, 1, 7)}
	}
	switch w.Src.Int("param16", 0, 15) {
	case 0, 1:
		// never above the pillars' stake: they keep the own committee non-empty
		return u(fsm.ParamMinimumStakeForValidators, min(w.Opts.PillarStake, pick("minv", 0, 2, 5, 10, vp.MinimumStakeForValidators+1, 150, 5000)))
	case 2:
		return u(fsm.ParamMinimumStakeForDelegates, pick("mind", 0, 2, 5, 10, vp.MinimumStakeForDelegates+1, 150))
	case 3, 4:
		return u(fsm.ParamMaxCommittees, pick("maxc", 1, 2, 3, 15))
	case 5:
		return u(fsm.ParamUnstakingBlocks, pick("ub", 1, 2, 3, 5))
	case 6:
		return u(fsm.ParamDelegateUnstakingBlocks, pick("dub", 2, 3, 4))
	case 7:
		return u(fsm.ParamMaxPauseBlocks, pick("mpb", 1, 2, 3, 5))
	case 8, 9:
		return u(fsm.ParamDoubleSignSlashPercentage, pick("dsp", 0, 1, 10, 50, 99, 100))
	case 10:
		return u(fsm.ParamNonSignSlashPercentage, pick("nsp", 0, 1, 10, 50, 100))
	case 11:
		return u(fsm.ParamMaxSlashPerCommittee, pick("msc", 1, 15, 50, 100))
	case 12:
		return u(fsm.ParamMaxNonSign, pick("mns", 0, 1, 2, vp.NonSignWindow))
	case 13:
		return u(fsm.ParamNonSignWindow, pick("nsw", max(vp.MaxNonSign, 1), 3, 4, 6))
	case 14:
		if w.Src.Int("gov?", 0, 1) == 0 {
			v := pick("daopct", 0, 0, 5, 50, 100)
			if v == 0 && w.Opts.NoDaoZero {
				v = 5
				if w.Opts.OnExclude != nil {
					w.Opts.OnExclude("KF-C12-dao-percent-zero")
				}
			}
			return ParamChange{Space: fsm.ParamSpaceGov, Key: fsm.ParamDAORewardPercentage, U: v}
		}
		return u(fsm.ParamEarlyWithdrawalPenalty, pick("ewp", 0, 20, 100))
	case 15:
		return ParamChange{Space: fsm.ParamSpaceCons, Key: fsm.ParamProtocolVersion, IsString: true,
			S: fsm.NewProtocolVersion(w.C.Height()+uint64(w.Src.Int("pvh", 1, 4)), 2)}
	default:
		panic("unreachable")
	}
}

// ParamTx builds a change-parameter transaction.
func (w *World) ParamTx(pc ParamChange) *PlannedTx {
	h := w.C.Height()
	start, end := uint64(0), h+100
	invalid := ""
	if w.Src.Int("window", 0, 14) == 0 {
		start, end, invalid = h+1, h+50, "outside proposal window"
	}
	var val any
	signer := AcctKey(w.Src.Int("govsigner", 0, w.Opts.AcctPool-1))
	msg := &fsm.MessageChangeParameter{ParameterSpace: pc.Space, ParameterKey: pc.Key, StartHeight: start, EndHeight: end, Signer: Addr(signer)}
	if pc.IsString {
		msg.ParameterValue, _ = lib.NewAny(&lib.StringWrapper{Value: pc.S})
		val = pc.S
	} else {
		msg.ParameterValue, _ = lib.NewAny(&lib.UInt64Wrapper{Value: pc.U})
		val = pc.U
	}
	return w.Tx(OpParam, signer, msg, w.fee(OpParam), fmt.Sprintf("param %s/%s=%v", pc.Space, pc.Key, val), invalid)
}

func (w *World) genOne() *PlannedTx {
	type cand struct {
		k   OpKind
		w   int
		gen func(*World) *PlannedTx
	}
	var cs []cand
	total := 0
	for _, k := range []OpKind{OpStake, OpEditStake, OpPause, OpUnpause, OpUnstake, OpSend, OpParam, OpCertResults} {
		if n := w.Opts.Weights[k]; n > 0 && !(k == OpParam && w.Opts.NoParams) {
			cs = append(cs, cand{k: k, w: n})
			total += n
		}
	}
	for _, e := range w.Opts.Extra {
		if e.Weight > 0 {
			cs = append(cs, cand{k: e.Kind, w: e.Weight, gen: e.Gen})
			total += e.Weight
		}
	}
	x := w.Src.Int("op", 0, total-1)
	for _, c := range cs {
		if x >= c.w {
			x -= c.w
			continue
		}
		if c.gen != nil {
			return c.gen(w)
		}
		switch c.k {
		case OpStake:
			return w.genStake()
		case OpEditStake:
			return w.genEditStake()
		case OpSend:
			return w.genSend()
		case OpParam:
			return w.ParamTx(w.StakingParamChange())
		case OpCertResults:
			return w.CertResultsTx(nil)
		default:
			return w.genSimple(c.k)
		}
	}
	return nil
}

// BlockPlan is a generated block.
type BlockPlan struct {
	Spec BlockSpec
	Txs  []*PlannedTx
	Desc string // certificate part: proposer, non-signers, double-signers, rewards
	NDS  int    // number of (signer,height) double-sign entries
	NNS  int
}

// DoubleSignCandidates lists the (key index, height) pairs acceptable as double-signer entries of the next certificate.
func (w *World) DoubleSignCandidates() (out [][2]uint64) {
	h := w.C.Height()
	lo := uint64(1)
	if h > 12 {
		lo = h - 12
	}
	for e := lo; e <= h; e++ {
		for _, k := range w.CommAt[e] {
			if k < w.Opts.Pillars {
				continue
			}
			id := fmt.Sprintf("%d/%d", k, e)
			if w.dsUsed[id] || w.lastDS[id] {
				continue
			}
			out = append(out, [2]uint64{uint64(k), e})
		}
	}
	return
}

// GenBlock draws the next block.
func (w *World) GenBlock() *BlockPlan {
	p := &BlockPlan{}
	n := w.Src.Int("ntx", 0, w.Opts.MaxTxs)
	for i := 0; i < n; i++ {
		if tx := w.genOne(); tx != nil {
			p.Txs = append(p.Txs, tx)
			p.Spec.Txs = append(p.Spec.Txs, tx.Bytes)
		}
	}
	var d []string
	// proposer: a committee member
	if len(w.Committee) > 0 {
		m := w.Committee[w.Src.Int("proposer", 0, len(w.Committee)-1)]
		pk, _ := crypto.NewPublicKeyFromBytes(m.PublicKey)
		p.Spec.Proposer = pk.Address().Bytes()
		d = append(d, "prop="+w.Name(p.Spec.Proposer))
	}
	// lazy set changes rarely, so that the same validators miss several certificates of one window
	if w.Src.Int("lazy-toggle", 0, 3) == 0 {
		if v := w.pickVal("lazy", func(v *fsm.Validator) bool { return !v.Delegate }); v != nil {
			a := string(v.Address)
			if w.Lazy[a] {
				delete(w.Lazy, a)
			} else {
				w.Lazy[a] = true
			}
		}
	}
	// non-signers: lazy committee members as long as the signers keep MinimumMaj23
	var nsNames []string
	signed := w.Power.TotalPower
	for i, m := range w.Committee {
		pk, _ := crypto.NewPublicKeyFromBytes(m.PublicKey)
		a := string(pk.Address().Bytes())
		if !w.Lazy[a] || w.isPillar(a) {
			continue
		}
		if signed-m.VotingPower < w.Power.MinimumMaj23 {
			continue
		}
		signed -= m.VotingPower
		p.Spec.NonSigners = append(p.Spec.NonSigners, i)
		nsNames = append(nsNames, w.Name([]byte(a)))
	}
	p.NNS = len(nsNames)
	if len(nsNames) > 0 {
		d = append(d, "ns=["+strings.Join(nsNames, ",")+"]")
	}
	if w.Params.Consensus.RootChainId != w.Opts.ChainID {
		p.Spec.RootHeight = w.RootHeightAt(w.C.Height())
		d = append(d, fmt.Sprintf("root=%d@%d", w.Params.Consensus.RootChainId, p.Spec.RootHeight))
	}
	res := &lib.CertificateResult{RewardRecipients: &lib.RewardRecipients{}, SlashRecipients: &lib.SlashRecipients{}}
	// controller.HandleRetired: the chain's own certificates carry Retired when the consensus parameter 'retired' is set
	if w.Params.Consensus.Retired != 0 {
		res.Retired = true
		d = append(d, "retired")
	}
	// double signers
	thisDS := map[string]bool{}
	if !w.Opts.NoSlash && w.Src.Int("ds?", 0, 9) < 3 {
		cands := w.DoubleSignCandidates()
		nds := w.Src.Int("nds", 1, 3)
		byKey := map[uint64]*lib.DoubleSigner{}
		var order []uint64
		var names []string
		for i := 0; i < nds && len(cands) > 0; i++ {
			j := w.Src.Int("dsi", 0, len(cands)-1)
			c := cands[j]
			cands = append(cands[:j], cands[j+1:]...)
			id := fmt.Sprintf("%d/%d", c[0], c[1])
			thisDS[id] = true
			if byKey[c[0]] == nil {
				byKey[c[0]] = &lib.DoubleSigner{Id: OpKey(int(c[0])).PublicKey().Bytes()}
				order = append(order, c[0])
			}
			byKey[c[0]].Heights = append(byKey[c[0]].Heights, c[1])
			names = append(names, fmt.Sprintf("v%d@%d", c[0], c[1]))
			p.NDS++
		}
		for _, k := range order {
			res.SlashRecipients.DoubleSigners = append(res.SlashRecipients.DoubleSigners, byKey[k])
		}
		if len(names) > 0 {
			d = append(d, "ds=["+strings.Join(names, ",")+"]")
		}
	}
	// reward recipients
	nrw := w.Src.Int("nrw", 1, 3)
	left := uint64(100)
	var rw []string
	for i := 0; i < nrw && left > 0; i++ {
		var addr []byte
		switch w.Src.Int("rwkind", 0, 5) {
		case 0, 1, 2: // a validator's operator address (compounding path)
			if len(w.ValAddrs) > 0 {
				addr = []byte(w.ValAddrs[w.Src.Int("rwv", 0, len(w.ValAddrs)-1)])
			}
		case 3:
			addr = Addr(OutKey(w.Src.Int("rwo", 0, w.Opts.OutPool-1)))
		case 4:
			addr = Addr(AcctKey(w.Src.Int("rwa", 0, w.Opts.AcctPool-1)))
		}
		if addr == nil {
			addr = p.Spec.Proposer
		}
		if addr == nil {
			addr = Addr(OpKey(0))
		}
		pc := uint64(w.Src.Int("rwpc", 1, int(left)))
		left -= pc
		chain := w.Opts.ChainID
		if w.Src.Int("rwchain", 0, 9) == 0 {
			chain = 2
		}
		res.RewardRecipients.PaymentPercents = append(res.RewardRecipients.PaymentPercents, &lib.PaymentPercents{Address: addr, Percent: pc, ChainId: chain})
		rw = append(rw, fmt.Sprintf("%s:%d", w.Name(addr), pc))
	}
	d = append(d, "rw=["+strings.Join(rw, ",")+"]")
	p.Spec.Results = res
	p.Desc = strings.Join(d, " ")
	for id := range thisDS {
		w.dsUsed[id] = true
	}
	w.lastDS = thisDS
	return p
}

// Step generates and applies one block, updates statistics and the model. When ApplyBlock fails the outcome's Err is
// set and nothing else happens.
func (w *World) Step() (*BlockPlan, *Outcome, error) {
	p := w.GenBlock()
	return w.Apply(p)
}

// Apply applies a plan (generated or hand-made).
func (w *World) Apply(p *BlockPlan) (*BlockPlan, *Outcome, error) {
	h := w.C.Height()
	out, err := w.C.Block(p.Spec)
	if err != nil {
		return p, out, err
	}
	if out.Err != nil {
		w.History = append(w.History, fmt.Sprintf("h%d: APPLY FAILED %v", h, out.Err))
		return p, out, nil
	}
	okSet := map[string]bool{}
	for _, r := range out.Results.Results {
		okSet[r.TxHash] = true
	}
	failed := map[string]string{}
	for _, f := range out.Results.Failed {
		failed[f.Hash] = fmt.Sprint(f.Error)
	}
	var parts []string
	for _, tx := range p.Txs {
		tx.OK = okSet[tx.Hash]
		tx.Err = failed[tx.Hash]
		st := "ok"
		if !tx.OK {
			st = "FAIL"
			if i := strings.Index(tx.Err, "Message: "); i >= 0 {
				st += "(" + strings.TrimSpace(tx.Err[i+9:]) + ")"
			}
		}
		switch {
		case tx.OK && tx.Invalid == "":
			w.Stats[string(tx.Kind)+".ok"]++
		case tx.OK:
			w.Stats[string(tx.Kind)+".ok-though-meant-invalid"]++
		case tx.Invalid != "":
			w.Stats[string(tx.Kind)+".rejected-on-purpose"]++
		default:
			w.Stats[string(tx.Kind)+".fail"]++
		}
		parts = append(parts, tx.Desc+" "+st)
	}
	for _, e := range out.Results.Events {
		w.Stats["event."+e.EventType]++
	}
	w.Stats["blocks"]++
	w.Stats["nonsigner-bits"] += p.NNS
	w.Stats["doublesign-entries"] += p.NDS
	w.History = append(w.History, fmt.Sprintf("h%d: %s | %s", h, strings.Join(parts, "; "), p.Desc))
	return p, out, w.Refresh()
}

// HistoryString renders the history so far.
func (w *World) HistoryString() string { return strings.Join(w.History, "\n") }

// CertResultsTx builds a really signed certificate-results transaction of committee 2 (aggregate BLS signature of the
// root chain's committee for chain 2 as of the root height, see SignedCertResultsTx): reward recipients paid out of
// pool 2, non-signers as long as +2/3 sign, sometimes Retired (which legitimately retires committee 2 for good),
// sometimes invalid on purpose (corrupt signature, stale height). decorate may add more to the results (orders) and
// returns a description of what it added. Returns nil when committee 2 is empty.
func (w *World) CertResultsTx(decorate func(res *lib.CertificateResult) string) *PlannedTx {
	h := w.C.Height()
	rootH := h
	if h > 1 && w.Src.Int("rooth", 0, 2) == 0 {
		rootH = h - 1
	}
	rootH = max(rootH, w.nestedRH)
	vs, err := w.C.FSM.LoadCommittee(2, rootH)
	if err != nil || vs.NumValidators == 0 {
		return nil
	}
	res := &lib.CertificateResult{RewardRecipients: &lib.RewardRecipients{}, SlashRecipients: &lib.SlashRecipients{}}
	left := uint64(100)
	var rw []string
	for i, n := 0, w.Src.Int("nrw2", 1, 3); i < n && left > 0; i++ {
		var a []byte
		switch w.Src.Int("rw2kind", 0, 2) {
		case 0:
			if len(w.ValAddrs) > 0 {
				a = []byte(w.ValAddrs[w.Src.Int("rwv2", 0, len(w.ValAddrs)-1)])
			}
		case 1:
			a = Addr(OutKey(w.Src.Int("rwo2", 0, w.Opts.OutPool-1)))
		}
		if a == nil {
			a = Addr(AcctKey(w.Src.Int("rwa2", 0, w.Opts.AcctPool-1)))
		}
		pc := uint64(w.Src.Int("rwpc2", 1, int(left)))
		left -= pc
		// the root chain pays in its own token: only entries for the root chain id are kept (CommitteeData.Combine)
		res.RewardRecipients.PaymentPercents = append(res.RewardRecipients.PaymentPercents, &lib.PaymentPercents{Address: a, Percent: pc, ChainId: w.Opts.ChainID})
		rw = append(rw, fmt.Sprintf("%s:%d", w.Name(a), pc))
	}
	extra := ""
	if decorate != nil {
		extra = decorate(res)
	}
	if w.Src.Int("retire2", 0, 11) == 0 {
		res.Retired = true
		extra += " RETIRED"
	}
	o := CertOpts{Height: w.nestedH + 1, RootHeight: rootH, ProposerIdx: w.Src.Int("prop2", 0, int(vs.NumValidators)-1)}
	signed := vs.TotalPower
	var ns []string
	for i, m := range vs.ValidatorSet.ValidatorSet {
		if w.Src.Int("ns2", 0, 4) == 0 && signed-m.VotingPower >= vs.MinimumMaj23 {
			signed -= m.VotingPower
			o.NonSigners = append(o.NonSigners, i)
			ns = append(ns, fmt.Sprint(i))
		}
	}
	inv := ""
	if w.Src.Int("badsig", 0, 14) == 0 {
		o.CorruptSig, inv = true, "corrupt aggregate signature"
	}
	if w.Src.Int("oldheight", 0, 14) == 0 && w.nestedH > 0 {
		o.Height, inv = w.nestedH, "certificate height not above the last one"
	}
	o.Fee = w.Params.Fee.CertificateResultsFee
	tx, _, e := w.C.SignedCertResultsTx(2, res, o)
	if e != nil {
		return nil
	}
	if inv == "" {
		w.nestedH, w.nestedRH = o.Height, rootH
	}
	return &PlannedTx{Kind: OpCertResults, Bytes: tx, Hash: crypto.HashString(tx), Invalid: inv,
		Desc: fmt.Sprintf("cert-results c2 h=%d root=%d rw=[%s] ns=[%s]%s", o.Height, rootH, strings.Join(rw, ","), strings.Join(ns, ","), extra)}
}

// EmptySpec is the empty block a correct proposer would build on chain c (a fork of the world's chain) right now: the
// certificate's root height is the chain's own height when it is its own root, else the root chain's (see RootHeightAt).
func (w *World) EmptySpec(c *Chain) BlockSpec {
	sp := BlockSpec{}
	if cons, err := c.FSM.GetParamsCons(); err == nil && cons.RootChainId != w.Opts.ChainID {
		sp.RootHeight = w.RootHeightAt(c.Height())
	}
	return sp
}

// RootHeightAt is the height of the foreign root chain while this chain is at height h (monotone in h).
func (w *World) RootHeightAt(h uint64) uint64 {
	if w.Opts.RootBehind > 0 {
		if h > w.Opts.RootBehind {
			return h - w.Opts.RootBehind
		}
		return 1
	}
	return h + w.Opts.RootAhead
}
