#!/bin/bash
# Offline setup: warm the Go build cache by compiling every property's test binary from /repo's working tree.
cd "$(dirname "$0")"
export GOFLAGS=-mod=mod GOPROXY=off
unset GOSUMDB GOTOOLCHAIN
cp -n /repo/go.sum ./go.sum 2>/dev/null
./check build
